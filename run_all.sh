#!/bin/bash
# runs every registered quick (or given tier) check on /repo as it is and validates the evidence files;
# used before committing evidence so that committed evidence always comes from the unchanged tree
TIER=${1:-quick}
cd /verif || exit 2
git -C /repo diff --quiet || { echo "/repo has uncommitted changes: evidence would not describe the unchanged tree"; exit 2; }
rc=0
for p in C01 C02 C03 C04 C05 C06 C08 C10 C11 C12 C13 C14 C15 C17 C19; do
  ./check $p --tier $TIER 2>&1 | grep -E "^(OK|VIOLATION|INCONCLUSIVE property|KNOWN-FINDING)" | cut -c1-160
  [ ${PIPESTATUS[0]} -eq 0 ] || rc=1
done
python3-vt - <<'PY' || rc=1
import json, jsonschema, glob, sys
sch = json.load(open('/root/.vp/EVIDENCE.schema.json'))
bad = 0
for f in sorted(glob.glob('/verif/evidence/*.json')):
    e = json.load(open(f))
    jsonschema.validate(e, sch)
    c = e['coverage']
    if e['level'] == 'proof' and c.get('obligations') != c.get('discharged'):
        print(f, 'obligations', c.get('obligations'), '!= discharged', c.get('discharged')); bad = 1
    if e.get('violations'):
        print(f, 'records violations'); bad = 1
print('evidence files valid' if not bad else 'EVIDENCE PROBLEM')
sys.exit(bad)
PY
exit $rc
