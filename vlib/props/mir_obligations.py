"""Obligations decided on the MIR of the current tree (engine C).  Each returns a list of dicts
{name, function, bound, covers, result, time_s, detail}; result is 'holds' | 'VIOLATED' | 'inconclusive'."""
import re, time
import z3
from .. import common as C, mir as M


def _ob(name, function, bound, covers):
    return {'name': name, 'function': function, 'bound': bound, 'covers': covers, 'kind': 'mir-smt', 'result': None, 'time_s': 0.0, 'detail': ''}


def _finish(ob, t0, bad, unknown=False):
    ob['time_s'] = round(time.time() - t0, 3)
    if unknown:
        ob['result'] = 'inconclusive'
    else:
        ob['result'] = 'VIOLATED' if bad else 'holds'
    ob['detail'] = '; '.join(bad)[:1500] if bad else ob['detail']
    return ob


def _is(it, v, name):
    """v is the (possibly integer-typed) local `name`"""
    return it.name_of(v) == name or (z3.is_expr(v) and str(v) == name)


def _unsat(query, bad, msg):
    """adds msg (with the model) to bad if query is satisfiable"""
    r = M.check(query)
    if r == 'unsat':
        return True
    if r == 'unknown':
        bad.append('UNKNOWN: ' + msg)
        return None
    bad.append(f'{msg}  [model: {r[1]}]')
    return False


# ================================================================================================ C12
def capture_names(fn, it):
    """closure captures: opaque name of `(*_1).k` -> source name from MIR debug info"""
    names = {}
    p = M.Path()
    for src, place in fn.debug.items():
        if '(*_1)' in place or '(_1.' in place:
            try:
                v = it.place(place, p)
            except M.MirError:
                continue
            n = it.name_of(v)
            if n:
                names[re.sub(r'\.\*$', '', n)] = src
    return names


def c12_layout(fns, consts):
    obs = []
    row, col = z3.Ints('row column')

    def model(c, it):
        if c.callee.endswith('parse_next'):
            return M.Tup([row, col])
        return None

    def some_of(v):
        return v.fields[0] if isinstance(v, M.Adt) and v.path.endswith('Option::Some') and len(v.fields) == 1 else None

    # --- grid / form / vbox / hbox closures ------------------------------------------------------
    specs = [
        ('grid', r'^process_grid_layout_children::\{closure#0\}$', {'column_minimum_width': ('column', 'column_minimum_width'), 'column_stretch': ('column', 'column_stretch'),
                                                                    'row_minimum_height': ('row', 'row_minimum_height'), 'row_stretch': ('row', 'row_stretch')}),
        ('form', r'^process_form_layout_children::\{closure#0\}$', {}),
        ('vbox', r'^process_vbox_layout_children::\{closure#0\}$', {'stretch': ('position', 'row_stretch')}),
        ('hbox', r'^process_hbox_layout_children::\{closure#0\}$', {'stretch': ('position', 'column_stretch')}),
    ]
    for kind, pat, arrays in specs:
        ob = _ob(f'c12_mir_{kind}_closure', f'uigen::layout::process_{kind}_layout_children::{{closure#0}}',
                 'all (row, column) / positions as mathematical integers; calls uninterpreted; usize casts value-preserving (indices are >= 0 by parse_next)',
                 {'grid': 'each per-row setting is recorded at the child\'s row and each per-column one at its column, fed by the getter of the same name; the item gets (Some(row), Some(column))',
                  'form': 'the item gets (Some(row), Some(column)) as returned by parse_next, in this order',
                  'vbox': 'stretch is recorded at the child\'s position from Layout.rowStretch; item has no cell',
                  'hbox': 'stretch is recorded at the child\'s position from Layout.columnStretch; item has no cell'}[kind])
        t0 = time.time()
        bad = []
        try:
            fn = M.find_fn(fns, pat)
            it = M.Interp(fn, consts, call_model=model)
            paths = [p for p in it.run() if p.end == 'return']
            if len(paths) != 1:
                raise M.MirError(f'{len(paths)} returning paths (expected straight-line code)')
            p = paths[0]
            caps = capture_names(fn, it)
            pos = it.leaf('_2.0', 'usize') if kind in ('vbox', 'hbox') else None
            inserts = [c for c in p.calls if c.callee.endswith('maybe_insert_into_opt_i32_array')]
            seen = set()
            for c in inserts:
                arr = caps.get(it.name_of(c.args[0]) or '', '?')
                arr_short = arr.replace('attributes__', '')
                getter = c.args[2].callee.split('::')[-1] if isinstance(c.args[2], M.Call) else repr(c.args[2])
                idx = c.args[1]
                if arr_short not in arrays:
                    bad.append(f'insertion into unexpected array {arr}')
                    continue
                seen.add(arr_short)
                want_idx, want_getter = arrays[arr_short]
                expected = {'row': row, 'column': col, 'position': pos}[want_idx]
                if not z3.is_expr(idx):
                    bad.append(f'{arr}: index is not an integer term: {idx!r}')
                    continue
                extra = [row != col] if kind == 'grid' else []
                _unsat(extra + [row >= 0, col >= 0, idx != expected], bad, f'{arr} is indexed by {idx}, documented index is the {want_idx}')
                if getter != want_getter:
                    bad.append(f'{arr} is fed by Layout.{getter}, expected {want_getter}')
            for a in arrays:
                if a not in seen:
                    bad.append(f'no insertion into {a}')
            news = [c for c in p.calls if c.callee.endswith('LayoutItem::new')]
            if len(news) != 1:
                bad.append(f'{len(news)} LayoutItem::new calls')
            else:
                a0, a1 = news[0].args[0], news[0].args[1]
                if kind in ('grid', 'form'):
                    r_, c_ = some_of(a0), some_of(a1)
                    if r_ is None or c_ is None:
                        bad.append(f'item cell is ({a0!r}, {a1!r}), expected (Some(row), Some(column))')
                    else:
                        _unsat([row != col, z3.Or(r_ != row, c_ != col)], bad, f'item gets cell ({r_}, {c_}) instead of (row, column)')
                else:
                    if not (isinstance(a0, M.Adt) and a0.path.endswith('None') and isinstance(a1, M.Adt) and a1.path.endswith('None')):
                        bad.append(f'box layout item gets a cell: ({a0!r}, {a1!r})')
            ob['detail'] = f'{len(inserts)} insertions, arrays {sorted(seen)}'
        except M.MirError as e:
            obs.append(_finish(ob, t0, [f'MIR not interpretable: {e}'], unknown=True))
            continue
        obs.append(_finish(ob, t0, bad, unknown=any(b.startswith('UNKNOWN') for b in bad)))

    # --- parse_next ------------------------------------------------------------------------------
    ob = _ob('c12_mir_parse_next', 'uigen::layout::LayoutIndexCounter::parse_next', 'all column/row counts (mathematical integers), both flows',
             'Layout.row is validated against max_row and passed first, Layout.column against max_column and passed second to next(); (max_row,max_column) = (65535, columns-1) / (rows-1, 65535)')
    t0 = time.time()
    bad = []
    try:
        fn = M.find_fn(fns, r'::parse_next$')
        it = M.Interp(fn, consts)
        paths = [p for p in it.run() if p.end == 'return']
        flows = {}
        for p in paths:
            tr = '\n'.join(p.trace)
            flow = 'LeftToRight' if ' as LeftToRight)' in tr else ('TopToBottom' if ' as TopToBottom)' in tr else None)
            if flow is None or flow in flows:
                bad.append('cannot attribute a path to a flow')
                continue
            flows[flow] = p
            count = it.leaf(f'_1.*.0@{flow}.0', 'i32')
            parses = [c for c in p.calls if c.callee.endswith('maybe_parse_layout_index')]
            nxt = [c for c in p.calls if c.callee.endswith('LayoutIndexCounter::next')]
            if len(parses) != 2 or len(nxt) != 1:
                bad.append(f'{flow}: {len(parses)} index parses, {len(nxt)} next() calls')
                continue
            by_field = {}
            for c in parses:
                field = c.args[0][1] if isinstance(c.args[0], tuple) else None
                getter = c.args[1].callee.split('::')[-1] if isinstance(c.args[1], M.Call) else None
                by_field[field] = (c, getter)
            if set(by_field) != {'row', 'column'}:
                bad.append(f'{flow}: parsed fields {sorted(map(str, by_field))}')
                continue
            for field in ('row', 'column'):
                c, getter = by_field[field]
                if getter != field:
                    bad.append(f'{flow}: field "{field}" is read from Layout.{getter}')
                want = {('LeftToRight', 'row'): z3.IntVal(65535), ('LeftToRight', 'column'): count - 1,
                        ('TopToBottom', 'row'): count - 1, ('TopToBottom', 'column'): z3.IntVal(65535)}[(flow, field)]
                if not z3.is_expr(c.args[2]):
                    bad.append(f'{flow}: max for {field} is {c.args[2]!r}')
                else:
                    _unsat([c.args[2] != want], bad, f'{flow}: {field} is validated against {c.args[2]}, documented maximum is {want}')
            if nxt[0].args[1] is not by_field['row'][0] and nxt[0].args[1] is not getattr(by_field['row'][0], 'result', None):
                bad.append(f'{flow}: next() receives {nxt[0].args[1]!r} as row')
            if nxt[0].args[2] is not by_field['column'][0] and nxt[0].args[2] is not getattr(by_field['column'][0], 'result', None):
                bad.append(f'{flow}: next() receives {nxt[0].args[2]!r} as column')
            if p.ret is not nxt[0] and p.ret is not getattr(nxt[0], 'result', None):
                bad.append(f'{flow}: result of next() is not what parse_next returns')
        if set(flows) != {'LeftToRight', 'TopToBottom'}:
            bad.append(f'flows seen: {sorted(flows)}')
    except M.MirError as e:
        bad = [f'MIR not interpretable: {e}']
        obs.append(_finish(ob, t0, bad, unknown=True))
    else:
        obs.append(_finish(ob, t0, bad, unknown=any(b.startswith('UNKNOWN') for b in bad)))

    # --- maybe_parse_layout_index ------------------------------------------------------------------
    ob = _ob('c12_mir_parse_layout_index', 'uigen::layout::maybe_parse_layout_index (+ closure)', 'all v, max (mathematical integers)',
             'Some(v) iff 0 <= v <= max; every rejected value pushes a diagnostic; the closure receives max_index and is applied to the attached value')
    t0 = time.time()
    bad = []
    try:
        fn = M.find_fn(fns, r'^maybe_parse_layout_index::\{closure#0\}$')
        it = M.Interp(fn, consts)
        v = it.leaf('_2.1', 'i32')
        mx = it.leaf('_1.2.*', 'i32')
        paths = [p for p in it.run() if p.end == 'return']
        in_range = z3.And(v >= 0, v <= mx)
        nsome = 0
        for p in paths:
            r = p.ret
            if isinstance(r, M.Adt) and r.path.endswith('Option::Some'):
                nsome += 1
                if not (z3.is_expr(r.fields[0])):
                    bad.append('Some(non-integer)')
                    continue
                _unsat(p.pc + [z3.Or(z3.Not(in_range), r.fields[0] != v)], bad, 'a value outside [0, max] (or another value) is let through')
            elif isinstance(r, M.Adt) and r.path.endswith('Option::None'):
                _unsat(p.pc + [in_range], bad, 'a value inside [0, max] is rejected')
                if not any(c.callee.endswith('Diagnostics::push') for c in p.calls):
                    bad.append('a rejected value is not diagnosed')
            else:
                bad.append(f'unexpected return {r!r}')
        # coverage of the case split: the three path conditions are exhaustive
        _unsat([z3.Not(z3.Or([z3.And(p.pc) for p in paths]))], bad, 'path conditions are not exhaustive')
        if nsome != 1:
            bad.append(f'{nsome} accepting paths')
        outer = M.find_fn(fns, r'^maybe_parse_layout_index$')
        ot = M.Interp(outer, consts)
        ops = [p for p in ot.run() if p.end == 'return']
        ok = False
        for p in ops:
            for c in p.calls:
                if c.callee.endswith('and_then') and len(c.args) == 2:
                    clo = c.args[1]
                    if isinstance(clo, M.Adt) and len(clo.fields) == 3 and isinstance(clo.fields[2], M.Ref) and _is(ot, clo.fields[2].target, '_3') \
                            and ot.name_of(c.args[0]) == '_2' and (p.ret is c or p.ret is getattr(c, 'result', None)):
                        ok = True
        if not ok:
            bad.append('outer function does not apply the closure (capturing max_index) to the attached value')
    except M.MirError as e:
        obs.append(_finish(ob, t0, [f'MIR not interpretable: {e}'], unknown=True))
    else:
        obs.append(_finish(ob, t0, bad, unknown=any(b.startswith('UNKNOWN') for b in bad)))
    return obs


# ------------------------------------------------------------------------------------------------ replay C12
ATTACHED = {'row_minimum_height': ('rowMinimumHeight', 'rowminimumheight', 'row'), 'row_stretch': ('rowStretch', 'rowstretch', 'row'),
            'column_minimum_width': ('columnMinimumWidth', 'columnminimumwidth', 'column'), 'column_stretch': ('columnStretch', 'columnstretch', 'column')}


def replay_grid_attribute(array, workdir):
    """CLI replay: a 3-column grid whose 4th child (cell row 1, column 0) carries the attached setting; the
    attribute must hold the value at the index of the child's row (row-wise) or column (column-wise).
    -> (reproduced, info)"""
    import os, subprocess
    from ..tv import driver as D
    qml_name, attr, axis = ATTACHED[array]
    text = ('import qmluic.QtWidgets\nQWidget {\n  QGridLayout {\n    columns: 3\n    QLabel {}\n    QLabel {}\n    QLabel {}\n'
            f'    QLabel {{ QLayout.{qml_name}: 7 }}\n  }}\n}}\n')
    os.makedirs(workdir, exist_ok=True)
    r = D.run_cli(C.build_native(), workdir, text, 'Grid')
    if r.rc != 0 or r.ui is None:
        return None, {'error': 'grid document rejected: ' + r.stderr[-400:]}
    m = re.search(attr + r'="([^"]*)"', r.ui)
    actual = m.group(1) if m else None
    expected = '0,7' if axis == 'row' else '7'
    info = {'document': text, 'attribute': attr, 'expected': expected, 'actual': actual, 'cell': '(row 1, column 0)'}
    with open(os.path.join(workdir, 'README.txt'), 'w') as f:
        f.write(f'qmluic generate-ui Grid.qml; {attr} expected "{expected}" (child in row 1, column 0), got "{actual}"\n')
    return actual != expected, info


def _grid(body, head='columns: 2'):
    return f'import qmluic.QtWidgets\nQWidget {{\n  QGridLayout {{\n    {head}\n{body}  }}\n}}\n'


LAYOUT_PROBES = [
    # (name, document, expectation)   expectation: ('reject', fragment) | ('cells', [(row, col)...]) | ('attr', name, value)
    ('ltr: column beyond columns-1 is diagnosed', _grid('    QLabel { QLayout.column: 2 }\n'), ('reject', 'column is too large')),
    ('ltr: column = columns-1 accepted', _grid('    QLabel { QLayout.column: 1 }\n    QLabel {}\n'), ('cells', [(0, 1), (1, 0)])),
    ('ltr: row up to 65535 accepted', _grid('    QLabel { QLayout.row: 5 }\n    QLabel {}\n'), ('cells', [(5, 0), (5, 1)])),
    ('ltr: row 65536 diagnosed', _grid('    QLabel { QLayout.row: 65536 }\n'), ('reject', 'row is too large')),
    ('ltr: negative row diagnosed', _grid('    QLabel { QLayout.row: -1 }\n'), ('reject', 'negative row')),
    ('ltr: negative column diagnosed', _grid('    QLabel { QLayout.column: -1 }\n'), ('reject', 'negative column')),
    ('ltr: explicit row and column are not swapped', _grid('    QLabel { QLayout.row: 1; QLayout.column: 0 }\n'), ('cells', [(1, 0)])),
    ('ttb: row beyond rows-1 is diagnosed', _grid('    QLabel { QLayout.row: 2 }\n', 'flow: QGridLayout.TopToBottom; rows: 2'), ('reject', 'row is too large')),
    ('ttb: column up to 65535 accepted', _grid('    QLabel { QLayout.column: 5 }\n    QLabel {}\n', 'flow: QGridLayout.TopToBottom; rows: 2'), ('cells', [(0, 5), (1, 5)])),
    ('ttb: column 65536 diagnosed', _grid('    QLabel { QLayout.column: 65536 }\n', 'flow: QGridLayout.TopToBottom; rows: 2'), ('reject', 'column is too large')),
    ('insert: a lower column filled after a higher one keeps both', _grid('    QLabel {}\n    QLabel { QLayout.columnStretch: 5 }\n    QLabel { QLayout.columnStretch: 3 }\n'), ('attr', 'columnstretch', '3,5')),
    ('insert: a lower row filled after a higher one keeps both', _grid('    QLabel { QLayout.row: 2; QLayout.rowStretch: 5 }\n    QLabel { QLayout.row: 0; QLayout.column: 0; QLayout.rowStretch: 3 }\n'), ('attr_re', 'rowstretch', r'3,\d+,5')),
    ('insert: the same value twice is accepted', _grid('    QLabel { QLayout.columnStretch: 5 }\n    QLabel {}\n    QLabel { QLayout.columnStretch: 5 }\n'), ('attr_re', 'columnstretch', r'5(,\d+)?')),
    ('insert: a conflicting value is diagnosed', _grid('    QLabel { QLayout.columnStretch: 5 }\n    QLabel {}\n    QLabel { QLayout.columnStretch: 4 }\n'), ('reject', 'mismatched with the value previously set')),
    ('insert: conflict after an unset lower slot was filled', _grid('    QLabel {}\n    QLabel { QLayout.columnStretch: 5 }\n    QLabel { QLayout.columnStretch: 3 }\n    QLabel { QLayout.columnStretch: 4 }\n'), ('reject', 'mismatched with the value previously set')),
    ('xml: rowMinimumHeight alone is written', _grid('    QLabel { QLayout.rowMinimumHeight: 9 }\n'), ('attr_re', 'rowminimumheight', r'9')),
    ('xml: rowStretch alone is written, nothing else', _grid('    QLabel { QLayout.rowStretch: 4 }\n'), ('attrs_exact', ['rowstretch'])),
    ('xml: columnMinimumWidth alone', _grid('    QLabel { QLayout.columnMinimumWidth: 9 }\n'), ('attrs_exact', ['columnminimumwidth'])),
    ('xml: columnStretch alone', _grid('    QLabel { QLayout.columnStretch: 9 }\n'), ('attrs_exact', ['columnstretch'])),
    ('xml: rowMinimumHeight alone, nothing else', _grid('    QLabel { QLayout.rowMinimumHeight: 9 }\n'), ('attrs_exact', ['rowminimumheight'])),
    ('item: spans and alignment are copied', _grid('    QLabel { QLayout.rowSpan: 2; QLayout.columnSpan: 3; QLayout.alignment: Qt.AlignTop }\n', 'columns: 4'), ('item_attrs', {'row': '0', 'column': '0', 'rowspan': '2', 'colspan': '3', 'alignment': 'Qt::AlignTop'})),
    ('item: only rowSpan', _grid('    QLabel {}\n    QLabel { QLayout.rowSpan: 2 }\n'), ('item_attrs_last', {'row': '0', 'column': '1', 'rowspan': '2'})),
    ('item: only columnSpan', _grid('    QLabel { QLayout.columnSpan: 2 }\n'), ('item_attrs', {'row': '0', 'column': '0', 'colspan': '2'})),
    ('flow: columns 0 diagnosed', _grid('    QLabel {}\n', 'columns: 0'), ('reject', 'negative or zero columns')),
    ('flow: columns 65537 diagnosed', _grid('    QLabel {}\n', 'columns: 65537'), ('reject', 'columns is too large')),
    ('flow: columns 65536 accepted', _grid('    QLabel {}\n    QLabel {}\n', 'columns: 65536'), ('cells', [(0, 0), (0, 1)])),
    ('flow: columns 1 wraps every child', _grid('    QLabel {}\n    QLabel {}\n', 'columns: 1'), ('cells', [(0, 0), (1, 0)])),
    ('form: cells', 'import qmluic.QtWidgets\nQWidget {\n  QFormLayout {\n    QLabel {}\n    QLabel {}\n    QLabel { QLayout.row: 3; QLayout.column: 1 }\n  }\n}\n', ('cells', [(0, 0), (0, 1), (3, 1)])),
    ('vbox: stretch at position', 'import qmluic.QtWidgets\nQWidget {\n  QVBoxLayout {\n    QLabel {}\n    QLabel { QLayout.rowStretch: 3 }\n  }\n}\n', ('attr_at', 'stretch', 1, '3', 2)),
    ('hbox: stretch at position', 'import qmluic.QtWidgets\nQWidget {\n  QHBoxLayout {\n    QLabel {}\n    QLabel {}\n    QLabel { QLayout.columnStretch: 4 }\n  }\n}\n', ('attr_at', 'stretch', 2, '4', 3)),
]


def replay_layout_probes(workdir):
    """CLI replay for refutations in parse_next / index range check / box and form closures: fixed probe documents
    around the documented boundaries.  -> (reproduced, info)"""
    import os
    from ..tv import driver as D
    os.makedirs(workdir, exist_ok=True)
    q = C.build_native()
    failed = []
    for i, (name, text, exp) in enumerate(LAYOUT_PROBES):
        r = D.run_cli(q, workdir, text, f'Probe{i}')
        if exp[0] == 'reject':
            ok = r.rc != 0 and exp[1] in r.stderr
            got = f'rc={r.rc} ' + r.stderr.strip().split('\n')[0][:120] if r.stderr.strip() else f'rc={r.rc}'
        elif r.rc != 0 or r.ui is None:
            ok, got = False, 'rejected: ' + r.stderr.strip()[:200]
        elif exp[0] == 'cells':
            cells = [(int(a), int(b)) for a, b in re.findall(r'<item[^>]*\brow="(\d+)"[^>]*\bcolumn="(\d+)"', r.ui)]
            if not cells:
                cells = [(int(b), int(a)) for a, b in re.findall(r'<item[^>]*\bcolumn="(\d+)"[^>]*\brow="(\d+)"', r.ui)]
            ok, got = cells == exp[1], cells
        elif exp[0] in ('item_attrs', 'item_attrs_last'):
            items = re.findall(r'<item([^>]*)>', r.ui)
            it_ = items[-1] if exp[0] == 'item_attrs_last' else (items[0] if items else '')
            got = dict(re.findall(r'(\w+)="([^"]*)"', it_))
            ok = got == exp[1]
        elif exp[0] == 'attrs_exact':
            m = re.search(r'<layout class="QGridLayout"([^>]*)>', r.ui)
            got = sorted(a for a in re.findall(r'(\w+)="', m.group(1)) if a not in ('class', 'name')) if m else None
            ok = got == sorted(exp[1])
        elif exp[0] in ('attr', 'attr_re'):
            m = re.search(r'\b' + exp[1] + r'="([^"]*)"', r.ui)
            got = m.group(1) if m else None
            ok = got is not None and (got == exp[2] if exp[0] == 'attr' else re.fullmatch(exp[2], got) is not None)
        else:
            # the value sits at the child's position (what unspecified entries default to is not C12's subject)
            m = re.search(r'\b' + exp[1] + r'="([^"]*)"', r.ui)
            got = m.group(1) if m else None
            parts = got.split(',') if got else []
            ok = len(parts) == exp[4] and parts[exp[2]] == exp[3]
        if not ok:
            failed.append({'probe': name, 'document': text, 'expected': exp, 'actual': got})
    with open(os.path.join(workdir, 'README.txt'), 'w') as f:
        f.write('qmluic generate-ui Probe<i>.qml for each probe; failed: %s\n' % failed)
    return bool(failed), {'failed_probes': failed}


# ================================================================================================ C19
def c19_color(fns, consts):
    import os
    obs = []
    # --- keyword table ----------------------------------------------------------------------------------
    ob = _ob('c19_mir_svg_table', 'color::SVG_NAMED_COLORS::{closure#0} + color::ColorRgb8::new',
             'the whole initialiser (147 rows), every keyword string (z3 string variable)',
             'as a map keyword -> (r,g,b) the table equals the SVG 1.1 colour keyword table (data/svg_colors.txt); later duplicates win as in HashMap::from')
    t0 = time.time()
    bad = []
    try:
        new_fn = M.find_fn(fns, r'impl at src/color\.rs.*>::new$|^ColorRgb8::new$') if False else None
        cands = [f for n, f in fns.items() if n.endswith('::new') and '-> ColorRgb8' in f.header]
        if len(cands) != 1:
            raise M.MirError(f'{len(cands)} candidates for ColorRgb8::new')
        new_fn = cands[0]

        def model(c, it):
            if c.callee.endswith('ColorRgb8::new') and len(c.args) == 3:
                sub = M.Interp(new_fn, consts, arg_values={'_1': c.args[0], '_2': c.args[1], '_3': c.args[2]})
                ps = [p for p in sub.run() if p.end == 'return']
                if len(ps) != 1 or not isinstance(ps[0].ret, M.Adt) or not ps[0].ret.names:
                    raise M.MirError('ColorRgb8::new is not a plain struct literal')
                return ps[0].ret
            return None
        fn = M.find_fn(fns, r'^SVG_NAMED_COLORS::\{closure#0\}$')
        it = M.Interp(fn, consts, call_model=model)
        ps = [p for p in it.run() if p.end == 'return']
        if len(ps) != 1:
            raise M.MirError(f'{len(ps)} paths')
        froms = [c for c in ps[0].calls if 'From<' in c.callee or c.callee.endswith('::from')]
        if len(froms) != 1 or not isinstance(froms[0].args[0], M.Tup):
            raise M.MirError('table is not built by one HashMap::from(array)')
        rows = []
        for e in froms[0].args[0].items:
            if not (isinstance(e, M.Tup) and len(e.items) == 2 and isinstance(e.items[0], tuple) and isinstance(e.items[1], M.Adt)):
                raise M.MirError(f'row {e!r}')
            rgb = e.items[1]
            rows.append((e.items[0][1], rgb.field('red'), rgb.field('green'), rgb.field('blue')))
        ref = []
        with open(os.path.join(C.VERIF, 'data', 'svg_colors.txt')) as f:
            for ln in f:
                if ln.strip() and not ln.startswith('#'):
                    n, r, g, b = ln.split()
                    ref.append((n, int(r), int(g), int(b)))
        s = z3.String('keyword')

        def lookup(table):
            v = z3.IntVal(-1)
            for (n, r, g, b) in table:          # later rows end up outermost: they win
                packed = (r * 65536 + g * 256 + b) if not isinstance(r, int) else z3.IntVal(r * 65536 + g * 256 + b)
                v = z3.If(s == z3.StringVal(n), packed, v)
            return v
        ranges = []
        for (n, r, g, b) in rows:
            for ch in (r, g, b):
                ranges.append(z3.And(ch >= 0, ch <= 255))
        _unsat([z3.Not(z3.And(ranges))], bad, 'a channel constant is outside 0..255')
        res = _unsat([lookup(rows) != lookup(ref)], bad, 'keyword table differs from SVG 1.1')
        if res is False:
            # name the offending keyword (from the model) for the replay
            r = M.check([lookup(rows) != lookup(ref)])
            kw = r[1].eval(s, model_completion=True).as_string()
            ob['keyword'] = kw
            got = [x for x in rows if x[0] == kw]
            want = [x for x in ref if x[0] == kw]
            ob['got'] = [str(z3.simplify(v)) if z3.is_expr(v) else v for v in (got[-1][1:] if got else ())]
            ob['want'] = list(want[-1][1:]) if want else None
        if len(rows) != 147:
            bad.append(f'{len(rows)} rows, SVG 1.1 has 147 keywords')
        ob['detail'] = f'{len(rows)} rows evaluated from MIR constants'
    except M.MirError as e:
        obs.append(_finish(ob, t0, [f'MIR not interpretable: {e}'], unknown=True))
    else:
        obs.append(_finish(ob, t0, bad, unknown=any(b.startswith('UNKNOWN') for b in bad)))

    # --- dispatch of Color::from_str -----------------------------------------------------------------------
    ob = _ob('c19_mir_from_str_dispatch', 'color::<impl FromStr for Color>::from_str', 'all paths of the function (calls uninterpreted)',
             "'#'-prefixed strings go to parse_hex_color (None -> InvalidHex); 'transparent' (ASCII case-insensitive) -> rgba(0,0,0,0); otherwise exact "
             'then lower-cased keyword lookup -> opaque Rgb8 of the table entry; everything else -> UnknownName (rejected, never guessed)')
    t0 = time.time()
    bad = []
    try:
        fn = M.find_fn(fns, r'src/color\.rs.*>::from_str$')
        it = M.Interp(fn, consts)
        ps = [p for p in it.run() if p.end == 'return']
        kinds = []
        for p in ps:
            names = [c.callee.split('::')[-1] for c in p.calls]
            r = p.ret
            def arg_is(c, i, what):
                a = c.args[i]
                return it.name_of(a) == what or (isinstance(a, M.Call) and a.callee.endswith(what)) or (isinstance(a, tuple) and a[1] == what)
            if 'parse_hex_color' in names:
                sp = [c for c in p.calls if c.callee.endswith('strip_prefix')]
                hx = [c for c in p.calls if c.callee.endswith('parse_hex_color')][0]
                ok = (len(sp) == 1 and z3.is_int_value(sp[0].args[1]) and sp[0].args[1].as_long() == ord('#') and isinstance(r, M.Call) and r.callee.endswith('ok_or')
                      and r.args[0] is hx and isinstance(r.args[1], M.Adt) and r.args[1].path.endswith('InvalidHex')
                      and it.name_of(hx.args[0]) == sp[0].name + '@Some.0')
                kinds.append('hex')
                if not ok:
                    bad.append('hex path: not `strip_prefix(\'#\') -> parse_hex_color(rest).ok_or(InvalidHex)`')
            elif 'rgba8' in names:
                c = [c for c in p.calls if c.callee.endswith('rgba8')][0]
                eq = [c2 for c2 in p.calls if c2.callee.endswith('eq_ignore_ascii_case')]
                zeros = all(z3.is_int_value(a) and a.as_long() == 0 for a in c.args)
                ok = (zeros and len(c.args) == 4 and len(eq) == 1 and eq[0].args[1] == ('str', 'transparent')
                      and isinstance(r, M.Adt) and r.path.endswith('::Ok') and r.fields[0] is c)
                kinds.append('transparent')
                if not ok:
                    bad.append("transparent path: not `eq_ignore_ascii_case(src, \"transparent\") -> Ok(rgba8(0,0,0,0))`")
            elif isinstance(r, M.Adt) and r.path.endswith('::Ok'):
                v = r.fields[0]
                gets = [c for c in p.calls if c.callee.endswith('::get')]
                ok = isinstance(v, M.Adt) and v.path.endswith('Color::Rgb8') and gets and it.name_of(v.fields[0]) == gets[-1].name + '@Some.0.*'
                lower = 'to_ascii_lowercase' in names
                kinds.append('keyword-lower' if lower else 'keyword-exact')
                if not ok:
                    bad.append('keyword path does not return Ok(Rgb8(<table entry>))')
                if lower:
                    lc = [c for c in p.calls if c.callee.endswith('to_ascii_lowercase')][0]
                    if it.name_of(lc.args[0]) != '_1':
                        bad.append('lower-casing is not applied to the input string')
            elif isinstance(r, M.Adt) and r.path.endswith('::Err'):
                kinds.append('unknown')
                if not (isinstance(r.fields[0], M.Adt) and r.fields[0].path.endswith('UnknownName')):
                    bad.append('fallback is not Err(UnknownName)')
                if len([c for c in p.calls if c.callee.endswith('::get')]) != 2:
                    bad.append('unknown-name path does not try both lookups')
            else:
                bad.append(f'unexpected path returning {r!r}')
        if sorted(kinds) != sorted(['hex', 'transparent', 'keyword-exact', 'keyword-lower', 'unknown']):
            bad.append(f'paths: {sorted(kinds)}')
        ob['detail'] = f'paths: {sorted(kinds)}'
    except M.MirError as e:
        obs.append(_finish(ob, t0, [f'MIR not interpretable: {e}'], unknown=True))
    else:
        obs.append(_finish(ob, t0, bad))
    return obs


def replay_color_keyword(keyword, want, workdir):
    """CLI replay: QColor-typed property bound to the keyword; compare the <color> element with the SVG value"""
    import os
    from ..tv import driver as D
    text = f'import qmluic.QtWidgets\nQWidget {{\n  QGraphicsView {{ backgroundBrush.color: "{keyword}" }}\n}}\n'
    os.makedirs(workdir, exist_ok=True)
    r = D.run_cli(C.build_native(), workdir, text, 'Color')
    if r.ui is None:
        got = 'rejected: ' + r.stderr.strip()[:200]
        rgb = None
    else:
        ch = {k: re.search(rf'<{k}>(\d+)</{k}>', r.ui) for k in ('red', 'green', 'blue')}
        rgb = [int(ch[k].group(1)) for k in ('red', 'green', 'blue')] if all(ch.values()) else None
        got = rgb
    info = {'document': text, 'keyword': keyword, 'expected': want, 'actual': got}
    with open(os.path.join(workdir, 'README.txt'), 'w') as f:
        f.write(f'qmluic generate-ui Color.qml ; <color> of "{keyword}": expected {want}, got {got}\n')
    if want is None:
        return r.ui is not None, info        # a keyword SVG does not have must be rejected
    return rgb != list(want), info


# ================================================================================================ C01 / C03
def ceval_divrem(fns, consts):
    """operand order and primitive selection of the integer / % folds at full width, and of all float folds"""
    obs = []
    ob = _ob('ceval_mir_arith_dispatch', 'tir::ceval::eval_binary_arith_expression (MIR) + <BinaryArithOp as Display>::fmt',
             'all operand values (primitives checked_*/IEEE ops left uninterpreted => full 64-bit width)',
             'on (Integer, Integer) each operator calls its own checked_* primitive on (left, right) in this order and None becomes IntegerOverflow; '
             'on (Float, Float) each operator applies its own IEEE operation to (left, right) in this order')
    t0 = time.time()
    bad = []
    try:
        # discriminant -> operator symbol, from the Display impl of the same enum
        disp = [f for n, f in fns.items() if n.endswith('::fmt') and '&BinaryArithOp' in f.header
                and any('const "+"' in l for b in f.blocks.values() for l in b)]
        if len(disp) != 1:
            raise M.MirError(f'{len(disp)} Display impls for BinaryArithOp')
        dt = M.Interp(disp[0], consts)
        sym = {}
        for p in dt.run():
            if p.end != 'return':
                continue
            strs = [v[1] for v in p.env.values() if isinstance(v, tuple) and v[0] == 'str' and v[1] in '+-*/%' and len(v[1]) == 1]
            dvals = []
            for c in p.pc:
                m = re.fullmatch(r'(\S+) == (\d+)', str(c))
                if m:
                    dvals.append(int(m.group(2)))
            if len(strs) == 1 and len(dvals) == 1:
                sym[dvals[0]] = strs[0]
        if sorted(sym.values()) != sorted('+-*/%'):
            raise M.MirError(f'cannot recover operator symbols from Display: {sym}')
        fn = M.find_fn(fns, r'^eval_binary_arith_expression$')
        it = M.Interp(fn, consts)
        paths = [p for p in it.run(max_paths=2000) if p.end == 'return']
        li, ri = it.leaf('_2@Integer.0', 'i64'), it.leaf('_3@Integer.0', 'i64')
        lf, rf = it.leaf('_2@Float.0', 'f64'), it.leaf('_3@Float.0', 'f64')
        opd = it.leaf('_1.discr', 'isize')
        want_int = {'+': 'checked_add', '-': 'checked_sub', '*': 'checked_mul', '/': 'checked_div', '%': 'checked_rem'}
        seen_int, seen_f = set(), set()
        frem = z3.Function('frem', z3.Float64(), z3.Float64(), z3.Float64())
        for p in paths:
            tr = '\n'.join(p.trace)
            if ' as Integer).0' in tr:
                prim = [c for c in p.calls if re.search(r'::checked_\w+$', c.callee)]
                if len(prim) != 1:
                    bad.append(f'integer path with {len(prim)} checked_* calls')
                    continue
                c = prim[0]
                # which operator does this path belong to?
                s = z3.Solver()
                s.add(*p.pc)
                ops = [k for k in sym if s.check(opd == k) == z3.sat]
                if len(ops) != 1:
                    bad.append(f'integer path for operators {ops}')
                    continue
                o = sym[ops[0]]
                seen_int.add(o)
                if c.callee.split('::')[-1] != want_int[o]:
                    bad.append(f"'{o}' on integers calls {c.callee.split('::')[-1]} instead of {want_int[o]}")
                if not (z3.is_expr(c.args[0]) and z3.is_expr(c.args[1])):
                    bad.append(f"'{o}': operands are not the two payloads")
                else:
                    _unsat([li != ri, z3.Or(c.args[0] != li, c.args[1] != ri)], bad, f"'{o}' on integers is applied to ({c.args[0]}, {c.args[1]}) instead of (left, right)")
                r = p.ret
                ok = isinstance(r, M.Call) and r.callee.endswith('ok_or') and isinstance(r.args[1], M.Adt) and r.args[1].path.endswith('IntegerOverflow') \
                    and isinstance(r.args[0], M.Call) and r.args[0].callee.endswith('::map') and r.args[0].args[0] is c
                if not ok:
                    bad.append(f"'{o}': result is not checked(l, r).map(Integer).ok_or(IntegerOverflow)")
            elif ' as Float).0' in tr:
                s = z3.Solver()
                s.add(*p.pc)
                ops = [k for k in sym if s.check(opd == k) == z3.sat]
                if len(ops) != 1:
                    bad.append(f'float path for operators {ops}')
                    continue
                o = sym[ops[0]]
                seen_f.add(o)
                r = p.ret
                val = r.fields[0].fields[0] if isinstance(r, M.Adt) and r.path.endswith('::Ok') and isinstance(r.fields[0], M.Adt) and r.fields[0].path.endswith('ConstantValue::Float') else None
                if val is None or not z3.is_fp(val):
                    bad.append(f"'{o}' on doubles does not return Ok(Float(..))")
                    continue
                # structural comparison with the IEEE operation on (left, right); % uses an uninterpreted symbol
                exp = {'+': z3.fpAdd(z3.RNE(), lf, rf), '-': z3.fpSub(z3.RNE(), lf, rf), '*': z3.fpMul(z3.RNE(), lf, rf),
                       '/': z3.fpDiv(z3.RNE(), lf, rf), '%': z3.fpRem(lf, rf)}[o]
                if not z3.eq(z3.simplify(val), z3.simplify(exp)):
                    bad.append(f"'{o}' on doubles computes {val} instead of the IEEE operation on (left, right)")
        if seen_int != set('+-*/%'):
            bad.append(f'integer operators seen: {sorted(seen_int)}')
        if seen_f != set('+-*/%'):
            bad.append(f'double operators seen: {sorted(seen_f)}')
        ob['detail'] = f'operator symbols from Display: {sym}; {len(paths)} returning paths'
    except M.MirError as e:
        obs.append(_finish(ob, t0, [f'MIR not interpretable: {e}'], unknown=True))
    else:
        obs.append(_finish(ob, t0, bad, unknown=any(b.startswith('UNKNOWN') for b in bad)))
    return obs


def replay_ceval(workdir):
    """CLI replay for refutations of the fold dispatch: constant expressions on both sides of the interesting
    asymmetries (non-commutative operators, negative dividends), read back from the .ui"""
    import os
    from ..tv import driver as D
    os.makedirs(workdir, exist_ok=True)
    q = C.build_native()
    probes = [('17 + 5', 22), ('17 - 5', 12), ('17 * 5', 85), ('17 / 5', 3), ('17 % 5', 2), ('-17 / 5', -3), ('-17 % 5', -2), ('5 - 17', -12), ('5 / 17', 0), ('5 % 17', 5),
              ('9223372036854775807 + 1', None), ('1 / 0', None), ('1 % 0', None), ('(-9223372036854775807 - 1) / -1', None)]
    fprobes = [('7.5 + 2.0', 9.5), ('7.5 - 2.0', 5.5), ('7.5 * 2.0', 15.0), ('7.5 / 2.0', 3.75), ('7.5 % 2.0', 1.5), ('2.0 - 7.5', -5.5), ('2.0 / 8.0', 0.25), ('2.0 % 7.5', 2.0)]
    failed = []
    for i, (e, want) in enumerate(probes + fprobes):
        isf = (e, want) in fprobes
        cls, prop = ('QDoubleSpinBox', 'maximum') if isf else ('QSpinBox', 'maximum')
        text = f'import qmluic.QtWidgets\nQWidget {{\n  {cls} {{ {prop}: {e} }}\n}}\n'
        r = D.run_cli(q, workdir, text, f'Fold{i}')
        if want is None:
            if r.rc == 0:
                failed.append({'expression': e, 'expected': 'rejected', 'actual': 'accepted'})
            continue
        if r.ui is None:
            failed.append({'expression': e, 'expected': want, 'actual': 'rejected: ' + r.stderr.strip()[:100]})
            continue
        m = re.search(r'<property name="maximum">\s*<\w+>([^<]*)<', r.ui)
        got = float(m.group(1)) if m else None
        if got != float(want):
            failed.append({'expression': e, 'expected': want, 'actual': got})
    with open(os.path.join(workdir, 'README.txt'), 'w') as f:
        f.write('qmluic generate-ui Fold<i>.qml; failed: %s\n' % failed)
    return bool(failed), {'failed_probes': failed}


def merge(res, obs, cov, replay, site):
    """adds MIR obligations to a proof-style coverage dict `cov`; refuted ones are replayed through `replay(ob)`
    -> (reproduced, info, key) before being reported"""
    cov.setdefault('obligations', 0)
    cov.setdefault('discharged', 0)
    cov.setdefault('samples', [])
    known = cov.setdefault('known_finding_obligations', [])
    for ob in obs:
        if ob['result'] == 'holds':
            cov['obligations'] += 1
            cov['discharged'] += 1
        elif ob['result'] == 'inconclusive':
            cov['obligations'] += 1
            res.inconc(f"{ob['name']}: {ob['detail'][:400]}")
        else:
            d = C.new_replay_dir(res.prop, ob['name'])
            rep, info, key = replay(ob, d)
            ob['replay'] = info
            if rep:
                new = res.violation(key, f"{ob['name']} ({ob['function']}): {ob['detail'][:600]}\nreplay through the CLI: {str(info)[:600]}", d)
                if not new:
                    ob['decided_as'] = 'known finding'
                    known.append(ob)
                else:
                    cov['obligations'] += 1
            else:
                cov['obligations'] += 1
                res.inconc(f"{ob['name']}: refuted on the MIR ({ob['detail'][:300]}) but the CLI replay did not reproduce it: {str(info)[:300]}")
        cov['samples'].append(ob)
    fe = cov.get('functions_encoded', [])
    if isinstance(fe, list):
        cov['functions_encoded'] = sorted(set(fe) | set(o['function'] for o in obs))
    cov.setdefault('trusted_base', [])
    for t in ('rustc nightly MIR pretty-printer', 'vlib/mir.py symbolic MIR interpreter', 'z3'):
        if t not in cov['trusted_base']:
            cov['trusted_base'].append(t)
    if 'Zunpretty=mir' not in cov.get('checker_cmd', ''):
        cov['checker_cmd'] = (cov.get('checker_cmd', '') + ' ; ' if cov.get('checker_cmd') else '') + 'cargo +nightly rustc -- -Zunpretty=mir + vlib/mir.py + z3'


def load():
    text = M.dump_mir()
    return M.parse_functions(text), M.parse_consts(text)


# ================================================================================================ C12 insertion
class ElemRef:
    """reference to element i of the modelled Vec<Option<i32>>"""
    def __init__(self, idx):
        self.idx = idx
        self.name = 'elem'


def c12_insert(fns, consts):
    """maybe_insert_into_opt_i32_array on a symbolic Vec<Option<i32>> (length, is_some[], value[] as SMT arrays)"""
    ob = _ob('c12_mir_insert', 'uigen::layout::maybe_insert_into_opt_i32_array',
             'arbitrary array contents and length, arbitrary index >= 0 and value (mathematical integers); Vec::len/resize_with/index/index_mut modelled on SMT arrays, other calls uninterpreted',
             'after an insertion the array has length max(len, index+1) (it never shrinks), every other entry is unchanged, new slots are unset, the slot holds the value; '
             'a conflicting value leaves the slot unchanged and pushes a diagnostic; the same value again is accepted silently; None changes nothing; no out-of-bounds access')
    t0 = time.time()
    bad = []
    try:
        fn = M.find_fn(fns, r'^maybe_insert_into_opt_i32_array$')
        A = z3.ArraySort(z3.IntSort(), z3.BoolSort())
        V = z3.ArraySort(z3.IntSort(), z3.IntSort())
        len0, some0, val0 = z3.Int('len0'), z3.Const('some0', A), z3.Const('val0', V)
        index, v1 = z3.Int('_2'), z3.Int('v1')
        oob = []

        def heap(p):
            if not hasattr(p, 'heap') or 'len' not in p.heap:
                p.heap = {'len': len0, 'some': some0, 'val': val0}
            return p.heap

        def model(c, it, p):
            h = heap(p)
            name = c.callee
            if name.endswith('Vec::len') or name.endswith('>::len'):
                return h['len']
            if name.endswith('resize_with'):
                n = c.args[1]
                if not z3.is_expr(n):
                    raise M.MirError('resize_with to a non-integer')
                j = z3.Int(f'j{c.seq}')
                # new length n: slots [old len, n) are unset; slots >= n are gone (a later growth refills them unset)
                k = z3.Int(f'k{c.seq}')
                ns = z3.Lambda([k], z3.And(k < h['len'], k < n, h['some'][k]))
                h['some'], h['len'] = ns, n
                return M.Tup([])
            if name.endswith('::index') or name.endswith('::index_mut'):
                i = c.args[1]
                oob.append(z3.And(*(p.pc + [z3.Not(z3.And(i >= 0, i < h['len']))])))
                return ElemRef(i)
            return None

        it = M.Interp(fn, consts, call_model=model, arg_values={'_2': index})
        orig_place = it.place

        def place(text, p):
            t = text.strip()
            m = re.fullmatch(r'\(\*(_\d+)\)', t)
            if m and isinstance(p.env.get(m.group(1)), ElemRef):
                return ('elem', p.env[m.group(1)].idx)
            m = re.fullmatch(r'\(\(\(\*(_\d+)\) as Some\)\.0: i32\)', t)
            if m and isinstance(p.env.get(m.group(1)), ElemRef):
                return heap(p)['val'][p.env[m.group(1)].idx]
            m = re.fullmatch(r'\(\(\(_3 as Some\)\.0: .*\)\.1: i32\)', t)
            if m:
                return v1
            return orig_place(text, p)
        it.place = place
        orig_rvalue = it.rvalue

        def rvalue(text, p):
            t = text.strip()
            m = re.fullmatch(r'discriminant\(\(\*(_\d+)\)\)', t)
            if m and isinstance(p.env.get(m.group(1)), ElemRef):
                return z3.If(heap(p)['some'][p.env[m.group(1)].idx], z3.IntVal(1), z3.IntVal(0))
            m = re.fullmatch(r'&\(\(\(\*(_\d+)\) as Some\)\.0: i32\)', t)
            if m and isinstance(p.env.get(m.group(1)), ElemRef):
                return M.Ref(heap(p)['val'][p.env[m.group(1)].idx])
            return orig_rvalue(text, p)
        it.rvalue = rvalue

        def store(place_text, value, it_, p):
            m = re.fullmatch(r'\(\*(_\d+)\)', place_text.strip())
            if m and isinstance(p.env.get(m.group(1)), ElemRef):
                h = heap(p)
                i = p.env[m.group(1)].idx
                if isinstance(value, M.Adt) and value.path.endswith('Option::Some'):
                    h['some'] = z3.Store(h['some'], i, True)
                    h['val'] = z3.Store(h['val'], i, value.fields[0])
                elif isinstance(value, M.Adt) and value.path.endswith('Option::None'):
                    h['some'] = z3.Store(h['some'], i, False)
                else:
                    raise M.MirError(f'store of {value!r} into the array')
        it.store_model = store
        paths = [p for p in it.run() if p.end == 'return']
        disc = it.leaf('_3.discr', 'isize')
        pre = [len0 >= 0, index >= 0]
        j = z3.Int('j')
        for q in oob:
            _unsat(pre + [q], bad, 'array access outside its bounds (panic)')
        for p in paths:
            h = heap(p)
            pc = pre + p.pc
            pushed = any(c.callee.endswith('Diagnostics::push') for c in p.calls)
            s = z3.Solver()
            s.add(*pc)
            if s.check(disc == 0) == z3.sat and s.check(disc == 1) != z3.sat:
                # value == None: nothing changes, nothing is reported
                _unsat(pc + [z3.Or(h['len'] != len0, z3.And(j >= 0, j < len0, z3.Or(h['some'][j] != some0[j], z3.And(some0[j], h['val'][j] != val0[j]))))], bad, 'None changes the array')
                if pushed:
                    bad.append('None pushes a diagnostic')
                continue
            want_len = z3.If(index + 1 > len0, index + 1, len0)
            _unsat(pc + [h['len'] != want_len], bad, 'array length after insertion is not max(len, index+1): existing entries are dropped or the array does not grow')
            _unsat(pc + [j >= 0, j < len0, j != index, j < h['len'], z3.Or(h['some'][j] != some0[j], z3.And(some0[j], h['val'][j] != val0[j]))], bad, 'another entry is changed by the insertion')
            _unsat(pc + [j >= len0, j < h['len'], j != index, h['some'][j]], bad, 'a new slot is not unset')
            conflict = z3.And(index < len0, some0[index], val0[index] != v1)
            if pushed:
                _unsat(pc + [z3.Not(conflict)], bad, 'a diagnostic is pushed although the slot was unset or held the same value')
                _unsat(pc + [z3.Or(z3.Not(h['some'][index]), h['val'][index] != val0[index])], bad, 'a conflicting value overwrites the slot')
            else:
                _unsat(pc + [conflict], bad, 'a conflicting value is not diagnosed')
                _unsat(pc + [z3.Or(z3.Not(h['some'][index]), h['val'][index] != v1)], bad, 'the slot does not hold the value after the insertion')
        ob['detail'] = f'{len(paths)} returning paths, {len(oob)} array accesses'
    except M.MirError as e:
        return [_finish(ob, t0, [f'MIR not interpretable: {e}'], unknown=True)]
    # de-duplicate messages
    seen, uniq = set(), []
    for b in bad:
        k = b.split('  [model')[0]
        if k not in seen:
            seen.add(k)
            uniq.append(b)
    return [_finish(ob, t0, uniq, unknown=any(b.startswith('UNKNOWN') for b in uniq))]


# ================================================================================================ C03 literals
def c03_literals(fns, consts):
    """number-literal decoding plumbing (the digit accumulation itself is std's from_str_radix / str::parse)"""
    ob = _ob('c03_mir_number_literal', 'qmlast::astutil::parse_number_str, parse_integer_str_radix (+ closures)',
             'every character (z3 integer code point) for the separator filter; all paths of the three functions with std calls uninterpreted',
             'prefixed literals are parsed in the radix strip_radix_prefix selected, on the stripped tail; literals containing e or . are parsed as f64; others in radix 10; '
             "the digit-separator fallback removes exactly the '_' characters and parses the rest in the SAME radix; the parsed number is returned unchanged")
    t0 = time.time()
    bad = []
    try:
        # L1: the separator filter
        f = M.find_fn(fns, r'^parse_integer_str_radix::\{closure#0\}::\{closure#0\}$')
        it = M.Interp(f, consts)
        ps = [p for p in it.run() if p.end == 'return']
        c = it.leaf('_2.*', 'char')
        if len(ps) != 1 or not z3.is_bool(ps[0].ret):
            bad.append('separator filter is not a single boolean expression of the character')
        else:
            _unsat([c >= 0, c <= 0x10FFFF, ps[0].ret != (c != ord('_'))], bad, "the separator filter does not keep exactly the characters other than '_'")
            if ps[0].calls:
                bad.append('separator filter calls ' + ps[0].calls[0].callee)
        # L2: the fallback closure
        f = M.find_fn(fns, r'^parse_integer_str_radix::\{closure#0\}$')
        it = M.Interp(f, consts)
        ps = [p for p in it.run() if p.end == 'return']
        if len(ps) != 1:
            bad.append(f'fallback closure has {len(ps)} paths')
        else:
            names = [c.callee.split('::')[-1] for c in ps[0].calls]
            if names != ['chars', 'filter', 'collect', 'deref', 'from_str_radix']:
                bad.append(f'fallback closure calls {names}, expected chars -> filter -> collect -> deref -> from_str_radix')
            else:
                ch, fi, co, de, fr = ps[0].calls
                radix = it.leaf('_1.1.*', 'u32')
                ok = (it.name_of(ch.args[0]) == '_1.0' and fi.args[0] is ch and co.args[0] is fi and isinstance(de.args[0], M.Ref) and de.args[0].target is co
                      and fr.args[0] is de and z3.is_expr(fr.args[1]) and ps[0].ret is fr)
                if not ok:
                    bad.append('fallback closure does not parse the filtered copy of the captured string')
                elif M.check([fr.args[1] != radix]) != 'unsat':
                    bad.append('fallback parses the cleaned string in another radix')
        # L3: parse_integer_str_radix
        f = M.find_fn(fns, r'^parse_integer_str_radix$')
        it = M.Interp(f, consts)
        ps = [p for p in it.run() if p.end == 'return']
        if len(ps) != 1:
            bad.append(f'parse_integer_str_radix has {len(ps)} paths')
        else:
            names = [c.callee.split('::')[-1] for c in ps[0].calls]
            if names != ['from_str_radix', 'or_else', 'ok', 'map']:
                bad.append(f'parse_integer_str_radix calls {names}')
            else:
                fr, oe, okc, mp = ps[0].calls
                clo = oe.args[1]
                ok = (it.name_of(fr.args[0]) == '_1' and _is(it, fr.args[1], '_2') and oe.args[0] is fr and isinstance(clo, M.Adt) and len(clo.fields) == 2
                      and it.name_of(clo.fields[0]) == '_1' and isinstance(clo.fields[1], M.Ref) and _is(it, clo.fields[1].target, '_2')
                      and okc.args[0] is oe and mp.args[0] is okc and 'Number::Integer' in repr(mp.args[1]) and ps[0].ret is mp)
                if not ok:
                    bad.append('parse_integer_str_radix is not from_str_radix(s, radix).or_else(fallback{s, &radix}).ok().map(Integer)')
        # L4: parse_number_str
        f = M.find_fn(fns, r'^parse_number_str$')
        it = M.Interp(f, consts)
        kinds = []
        for p in [p for p in it.run() if p.end == 'return']:
            names = [c.callee.split('::')[-1] for c in p.calls]
            if names == ['strip_radix_prefix', 'parse_integer_str_radix']:
                sp, pi = p.calls
                kinds.append('prefixed')
                if not (it.name_of(sp.args[0]) == '_1' and it.name_of(pi.args[0]) == sp.name + '@Some.0.1' and it.name_of(pi.args[1]) is None and
                        z3.is_expr(pi.args[1]) and str(pi.args[1]) == sp.name + '@Some.0.0' and p.ret is pi):
                    bad.append('prefixed literal: not parse_integer_str_radix(tail, radix) of strip_radix_prefix(s)')
            elif names == ['strip_radix_prefix', 'contains', 'parse', 'ok', 'map']:
                kinds.append('float')
                sp, cn, pa, okc, mp = p.calls
                pat = cn.args[1]
                chars = sorted(a.as_long() for a in pat.items) if isinstance(pat, M.Tup) and all(z3.is_int_value(a) for a in pat.items) else None
                if not (it.name_of(cn.args[0]) == '_1' and chars == sorted([ord('e'), ord('.')]) and it.name_of(pa.args[0]) == '_1' and 'parse::<f64>' in pa.raw
                        and okc.args[0] is pa and mp.args[0] is okc and 'Number::Float' in repr(mp.args[1]) and p.ret is mp):
                    bad.append("float literal: not `s.contains(['e','.'])` -> s.parse::<f64>().ok().map(Float)")
            elif names == ['strip_radix_prefix', 'contains', 'parse_integer_str_radix']:
                kinds.append('decimal')
                pi = p.calls[2]
                if not (it.name_of(pi.args[0]) == '_1' and z3.is_int_value(pi.args[1]) and pi.args[1].as_long() == 10 and p.ret is pi):
                    bad.append('decimal literal: not parse_integer_str_radix(s, 10)')
            else:
                bad.append(f'unexpected path {names}')
        if sorted(kinds) != ['decimal', 'float', 'prefixed']:
            bad.append(f'paths of parse_number_str: {sorted(kinds)}')
        ob['detail'] = f'paths: {sorted(kinds)}'
    except M.MirError as e:
        return [_finish(ob, t0, [f'MIR not interpretable: {e}'], unknown=True)]
    return [_finish(ob, t0, bad, unknown=any(b.startswith('UNKNOWN') for b in bad))]


def replay_literals(workdir):
    """CLI replay: literal spellings with their ECMAScript values, read back from the .ui"""
    import os
    from ..tv import driver as D
    os.makedirs(workdir, exist_ok=True)
    q = C.build_native()
    ints = [('0xff_00', 65280), ('0x1_f', 31), ('0Xdead', 57005), ('0xa_0 + 1', 161), ('1_000', 1000), ('65_280', 65280), ('0b1111_0000', 240), ('0B101', 5), ('0o7_7', 63), ('0O17', 15),
            ('017', 15), ('08', 8), ('0', 0), ('00', 0), ('0x_f', None) if False else ('0xF', 15), ('12ab', None), ('0b12', None), ('0o8', None)]
    floats = [('1e3', 1000.0), ('0.5', 0.5), ('.5e1', 5.0), ('1.5e-1', 0.15), ('2.', 2.0), ('0e-1', 0.0)]
    failed = []
    for i, (e, want) in enumerate(ints + floats):
        isf = (e, want) in floats
        cls = 'QDoubleSpinBox' if isf else 'QSpinBox'
        text = f'import qmluic.QtWidgets\nQWidget {{\n  {cls} {{ maximum: {e} }}\n}}\n'
        r = D.run_cli(q, workdir, text, f'Lit{i}')
        if want is None:
            if r.rc == 0:
                failed.append({'literal': e, 'expected': 'rejected', 'actual': 'accepted'})
            continue
        if r.ui is None:
            failed.append({'literal': e, 'expected': want, 'actual': 'rejected: ' + r.stderr.strip()[:100]})
            continue
        m = re.search(r'<property name="maximum">\s*<\w+>([^<]*)<', r.ui)
        got = float(m.group(1)) if m else None
        if got != float(want):
            failed.append({'literal': e, 'expected': want, 'actual': got})
    with open(os.path.join(workdir, 'README.txt'), 'w') as f:
        f.write('qmluic generate-ui Lit<i>.qml; failed: %s\n' % failed)
    return bool(failed), {'failed_probes': failed}


# ================================================================================================ C12 XML attributes
def struct_fields(rel_path, struct_name):
    """field order of a struct, read from its declaration in the current tree (the MIR names fields by index only)"""
    import os
    text = open(os.path.join(C.REPO, rel_path)).read()
    m = re.search(r'struct ' + struct_name + r'(?:<[^>{]*>)?\s*\{(.*?)\n\}', text, re.S)
    if not m:
        raise M.MirError('struct ' + struct_name + ' not found')
    return re.findall(r'^\s*(?:pub(?:\([^)]*\))? )?(\w+)\s*:', m.group(1), re.M)


def c12_xml_attributes(fns, consts):
    ob = _ob('c12_mir_layout_xml_attributes', 'uigen::layout::Layout::serialize_to_xml (attribute section)',
             'all 32 combinations of empty / non-empty per-index arrays (paths of the function up to the first child/property write); calls uninterpreted',
             'each of columnminimumwidth, columnstretch, rowminimumheight, rowstretch, stretch is written iff ITS OWN array is non-empty, and is formatted from that same array')
    t0 = time.time()
    bad = []
    try:
        fields = struct_fields('lib/src/uigen/layout.rs', 'LayoutAttributes')
        layout_fields = struct_fields('lib/src/uigen/layout.rs', 'Layout')
        ai = layout_fields.index('attributes')
        cands = [f for n, f in fns.items() if n.endswith('::serialize_to_xml') and '&layout::Layout,' in f.header.replace('_1: ', '')]
        cands = [f for f in cands if any('"layout"' in l for b in f.blocks.values() for l in b)]
        if len(cands) != 1:
            raise M.MirError(f'{len(cands)} candidates for Layout::serialize_to_xml')
        it = M.Interp(cands[0], consts)
        it.stop_at = ('serialize_properties_to_xml',)
        paths = [p for p in it.run(max_paths=200) if p.end == 'stop']
        if len(paths) != 2 ** len(fields):
            bad.append(f'{len(paths)} paths through the attribute section, expected {2 ** len(fields)}')

        def field_of(v):
            """index of the LayoutAttributes field a reference designates"""
            n = it.name_of(v) or ''
            m = re.search(r'_1\.\*\.%d\.(\d+)' % ai, n)
            return int(m.group(1)) if m else None
        for p in paths:
            nonempty = {}
            for c in p.calls:
                if c.callee.endswith('is_empty'):
                    k = field_of(c.args[0])
                    s = z3.Solver()
                    s.add(*p.pc)
                    v = it.leaf(c.name + '.int', 'isize')
                    nonempty[k] = s.check(v != 0) == z3.unsat
            written = {}
            for c in p.calls:
                if c.callee.endswith('push_attribute') and isinstance(c.args[1], M.Tup) and isinstance(c.args[1].items[0], tuple):
                    name = c.args[1].items[0][1]
                    if name in ('class', 'name'):
                        continue
                    # value <- as_ref(&String <- format_opt_i32_array(deref(&field), default))
                    v = c.args[1].items[1]
                    src = None
                    for _ in range(6):
                        if isinstance(v, M.Ref):
                            v = v.target
                        elif isinstance(v, M.Call) and v.callee.endswith('format_opt_i32_array'):
                            d = v.args[0]
                            d = d.args[0] if isinstance(d, M.Call) else d
                            src = field_of(d)
                            break
                        elif isinstance(v, M.Call):
                            v = v.args[0]
                        else:
                            break
                    written[name] = src
            for k, fname in enumerate(fields):
                xml = fname.replace('_', '')
                if nonempty.get(k) is None:
                    bad.append(f'no emptiness test of {fname} on a path')
                    continue
                if nonempty[k] and xml not in written:
                    bad.append(f'{xml} is not written although {fname} is non-empty')
                if not nonempty[k] and xml in written:
                    bad.append(f'{xml} is written although {fname} is empty')
                if xml in written and written[xml] != k:
                    bad.append(f'{xml} is formatted from field #{written[xml]} ({fields[written[xml]] if written[xml] is not None else "?"}) instead of {fname}')
            for name in written:
                if name not in [f.replace('_', '') for f in fields]:
                    bad.append(f'unexpected attribute {name}')
        ob['detail'] = f'{len(paths)} paths, fields {fields}'
    except (M.MirError, ValueError) as e:
        return [_finish(ob, t0, [f'MIR not interpretable: {e}'], unknown=True)]
    seen, uniq = set(), []
    for b in bad:
        if b not in seen:
            seen.add(b)
            uniq.append(b)
    return [_finish(ob, t0, uniq)]


# ================================================================================================ C19 palette roles
QT_COLOR_ROLES = ['window', 'windowText', 'base', 'alternateBase', 'toolTipBase', 'toolTipText', 'placeholderText', 'text', 'button', 'buttonText', 'brightText',
                  'light', 'midlight', 'dark', 'mid', 'shadow', 'highlight', 'highlightedText', 'link', 'linkVisited']


def c19_palette_roles(fns, consts):
    """colour strings bound to palette roles are read as colours only if the role is declared with a brush type:
    the hand-written role table (metatype_tweak.rs) is evaluated from the MIR constants"""
    ob = _ob('c19_mir_palette_roles', 'metatype_tweak::internal_gui_classes (Property::new table of QPaletteColorGroup)', 'the whole table (MIR constants)',
             "every QPalette::ColorRole (Qt's list, written independently) is declared as a property of type QBrush; no role is declared with another type")
    t0 = time.time()
    bad = []
    try:
        fn = M.find_fn(fns, r'^internal_gui_classes$')
        it = M.Interp(fn, consts)
        ps = [p for p in it.run() if p.end == 'return']
        if len(ps) != 1:
            raise M.MirError(f'{len(ps)} paths')
        decl = {}
        for c in ps[0].calls:
            if c.callee.endswith('Property::new') and len(c.args) == 2 and all(isinstance(a, tuple) and a[0] == 'str' for a in c.args):
                decl.setdefault(c.args[0][1], []).append(c.args[1][1])
        role = z3.String('role')
        # as a map role -> set of declared types: queried for every role name
        for r in QT_COLOR_ROLES:
            tys = decl.get(r, [])
            if 'QBrush' not in tys:
                bad.append(f'palette role {r} is not declared as QBrush (declared: {tys})')
            other = [t for t in tys if t != 'QBrush']
            if other:
                bad.append(f'palette role {r} is also declared as {other}')
        ob['detail'] = f'{sum(len(v) for v in decl.values())} Property::new rows evaluated; {len(QT_COLOR_ROLES)} roles'
        ob['bad_roles'] = [r for r in QT_COLOR_ROLES if 'QBrush' not in decl.get(r, []) or [t for t in decl.get(r, []) if t != 'QBrush']]
    except M.MirError as e:
        return [_finish(ob, t0, [f'MIR not interpretable: {e}'], unknown=True)]
    return [_finish(ob, t0, bad)]


def replay_palette_role(role, workdir):
    import os
    from ..tv import driver as D
    os.makedirs(workdir, exist_ok=True)
    text = f'import qmluic.QtWidgets\nQWidget {{ palette.{role}: "#102030" }}\n'
    r = D.run_cli(C.build_native(), workdir, text, 'Pal')
    ok = False
    got = 'rejected: ' + r.stderr.strip()[:200] if r.ui is None else None
    if r.ui is not None:
        m = re.search(r'<colorrole role="' + role[0].upper() + role[1:] + r'">\s*<brush[^>]*>\s*<color[^>]*>(.*?)</color>', r.ui, re.S)
        if m:
            ch = {k: re.search(rf'<{k}>(\d+)</{k}>', m.group(1)) for k in ('red', 'green', 'blue')}
            got = [int(ch[k].group(1)) for k in ('red', 'green', 'blue')] if all(ch.values()) else None
            ok = got == [16, 32, 48]
        else:
            got = 'no <colorrole>/<brush>/<color> for the role: ' + ' '.join(r.ui.split())[:300]
    info = {'document': text, 'expected': [16, 32, 48], 'actual': got}
    with open(os.path.join(workdir, 'README.txt'), 'w') as f:
        f.write(f'qmluic generate-ui Pal.qml ; role {role}: expected colour [16,32,48], got {got}\n')
    return not ok, info


# ================================================================================================ C19 colour -> gadget
def c19_color_gadget(fns, consts):
    ob = _ob('c19_mir_color_to_gadget', 'uigen::gadget::<impl From<Color> for Gadget>::from (+ its two closures)', 'both Color variants, all channel values (calls uninterpreted)',
             'an opaque colour is written with alpha 255, a translucent one with its own alpha; red/green/blue elements carry the channel of the same name')
    t0 = time.time()
    bad = []
    try:
        rgb_fields = struct_fields('lib/src/color.rs', 'ColorRgb8')
        rgba_fields = struct_fields('lib/src/color.rs', 'ColorRgba8')
        cands = [f for n, f in fns.items() if n.endswith('::from') and f.header.startswith('fn gadget::') and '(_1: Color)' in f.header]
        if len(cands) != 1:
            raise M.MirError(f'{len(cands)} candidates for From<Color> for Gadget')
        it = M.Interp(cands[0], consts)
        paths = [p for p in it.run() if p.end == 'return']
        seen = set()
        for p in paths:
            tr = '\n'.join(p.trace)
            variant = 'Rgb8' if ' as Rgb8)' in tr else ('Rgba8' if ' as Rgba8)' in tr else None)
            if variant is None or variant in seen:
                bad.append('cannot attribute a path to a Color variant')
                continue
            seen.add(variant)
            fields = rgb_fields if variant == 'Rgb8' else rgba_fields
            pairs = {}
            for c in p.calls:
                if c.callee.endswith('::call') and len(c.args) == 2 and isinstance(c.args[1], M.Tup) and isinstance(c.args[1].items[0], tuple):
                    pairs[c.args[1].items[0][1]] = c.args[1].items[1]
            for ch in ('red', 'green', 'blue'):
                v = pairs.get(ch)
                want = it.leaf(f'_1@{variant}.0.{fields.index(ch)}', 'u8')
                if v is None or not z3.is_expr(v):
                    bad.append(f'{variant}: no <{ch}> element')
                else:
                    _unsat([v != want], bad, f'{variant}: <{ch}> carries {v} instead of the {ch} channel')
            a = pairs.get('alpha')
            if a is None or not z3.is_expr(a):
                bad.append(f'{variant}: no alpha attribute')
            elif variant == 'Rgb8':
                _unsat([a != 255], bad, f'opaque colour is written with alpha {a}, not 255')
            else:
                _unsat([a != it.leaf(f'_1@Rgba8.0.{rgba_fields.index("alpha")}', 'u8')], bad, f'translucent colour is written with alpha {a}')
            if set(pairs) != {'red', 'green', 'blue', 'alpha'}:
                bad.append(f'{variant}: elements {sorted(pairs)}')
        if seen != {'Rgb8', 'Rgba8'}:
            bad.append(f'variants seen: {sorted(seen)}')
        # the two closures pair the given name with the given number
        for cl in [f for n, f in fns.items() if re.search(r'gadget::<impl at src/uigen/gadget\.rs:\d+:1: \d+:\d+>::from::\{closure#\d\}$', n) and '(&str, u8)' not in n]:
            ci = M.Interp(cl, consts)
            ps = [p for p in ci.run() if p.end == 'return']
            if len(ps) != 1 or not isinstance(ps[0].ret, M.Tup) or len(ps[0].ret.items) != 2:
                continue
            nm, val = ps[0].ret.items
            if not (isinstance(nm, M.Call) and nm.callee.endswith('to_owned') and ci.name_of(nm.args[0]) == '_2'):
                bad.append('closure does not use the given name')
            # value: Number(v.into()) possibly wrapped in Simple(..)
            inner = val
            for _ in range(3):
                if isinstance(inner, M.Adt) and inner.fields:
                    inner = inner.fields[0]
            if not (isinstance(inner, M.Call) and _is(ci, inner.args[0], '_3')):
                bad.append('closure does not use the given channel value')
        ob['detail'] = f'variants {sorted(seen)}'
    except (M.MirError, ValueError) as e:
        return [_finish(ob, t0, [f'MIR not interpretable: {e}'], unknown=True)]
    return [_finish(ob, t0, bad, unknown=any(b.startswith('UNKNOWN') for b in bad))]


def replay_color_gadget(workdir):
    import os
    from ..tv import driver as D
    os.makedirs(workdir, exist_ok=True)
    failed = []
    for s_, want in (('#102030', (16, 32, 48, 255)), ('#80102030', (16, 32, 48, 128)), ('red', (255, 0, 0, 255)), ('#abc', (170, 187, 204, 255)), ('#1abc', (170, 187, 204, 17))):
        text = f'import qmluic.QtWidgets\nQWidget {{\n  QGraphicsView {{ backgroundBrush.color: "{s_}" }}\n}}\n'
        r = D.run_cli(C.build_native(), workdir, text, 'Gad')
        got = None
        if r.ui is not None:
            m = re.search(r'<color alpha="(\d+)">(.*?)</color>', r.ui, re.S)
            if m:
                ch = {k: re.search(rf'<{k}>(\d+)</{k}>', m.group(2)) for k in ('red', 'green', 'blue')}
                if all(ch.values()):
                    got = tuple(int(ch[k].group(1)) for k in ('red', 'green', 'blue')) + (int(m.group(1)),)
        if got != want:
            failed.append({'colour': s_, 'expected (r,g,b,alpha)': want, 'actual': got})
    with open(os.path.join(workdir, 'README.txt'), 'w') as f:
        f.write('qmluic generate-ui Gad.qml; failed: %s\n' % failed)
    return bool(failed), {'failed_probes': failed}


# ================================================================================================ C12 item / flow
def c12_item_and_flow(fns, consts):
    obs = []
    # --- LayoutItem::new ------------------------------------------------------------------------------------
    ob = _ob('c12_mir_layout_item_new', 'uigen::layout::LayoutItem::new (+ closures)', 'the single path (calls uninterpreted)',
             'the item gets the given (row, column) in this order, and alignment / column span / row span from the attached getters of the same name')
    t0 = time.time()
    bad = []
    try:
        fn = M.find_fn(fns, r'layout\.rs:\d+:1: \d+:\d+>::new$') if False else None
        cands = [f for n, f in fns.items() if n.endswith('::new') and f.header.rstrip(' {').endswith('-> LayoutItem')]
        if len(cands) != 1:
            raise M.MirError(f'{len(cands)} candidates for LayoutItem::new')
        it = M.Interp(cands[0], consts)
        ps = [p for p in it.run() if p.end == 'return']
        if len(ps) != 1 or not isinstance(ps[0].ret, M.Adt) or not ps[0].ret.names:
            raise M.MirError('LayoutItem::new is not a plain struct literal')
        r = ps[0].ret
        if it.name_of(r.field('row')) != '_1':
            bad.append('item.row is not the given row')
        if it.name_of(r.field('column')) != '_2':
            bad.append('item.column is not the given column')
        for f, getter in (('alignment', 'alignment'), ('column_span', 'column_span'), ('row_span', 'row_span')):
            v = r.field(f)
            if not (isinstance(v, M.Call) and v.callee.endswith('::map') and isinstance(v.args[0], M.Call) and v.args[0].callee.split('::')[-1] == getter):
                bad.append(f'item.{f} is not taken from Layout.{getter}')
        # the three closures keep the value (second tuple component)
        for n, f in fns.items():
            if n.startswith(cands[0].name + '::{closure#'):
                ci = M.Interp(f, consts)
                cp = [p for p in ci.run() if p.end == 'return']
                if len(cp) != 1 or ci.name_of(cp[0].ret) not in ('_2.1',) and not (z3.is_expr(cp[0].ret) and str(cp[0].ret) == '_2.1'):
                    bad.append(f'closure {n.split("::")[-1]} does not return the attached value')
    except (M.MirError, ValueError) as e:
        obs.append(_finish(ob, t0, [f'MIR not interpretable: {e}'], unknown=True))
    else:
        obs.append(_finish(ob, t0, bad))

    # --- LayoutItem::serialize_to_xml -------------------------------------------------------------------------
    ob = _ob('c12_mir_layout_item_xml', 'uigen::layout::LayoutItem::serialize_to_xml (attribute section)', 'all 32 combinations of present / absent fields',
             'alignment, column, colspan, row, rowspan are written iff the field of that meaning is set, each from its own field')
    t0 = time.time()
    bad = []
    try:
        fields = struct_fields('lib/src/uigen/layout.rs', 'LayoutItem')
        xml_of = {'alignment': 'alignment', 'column': 'column', 'column_span': 'colspan', 'row': 'row', 'row_span': 'rowspan'}
        cands = [f for n, f in fns.items() if n.endswith('::serialize_to_xml') and '(_1: &LayoutItem,' in f.header]
        if len(cands) != 1:
            raise M.MirError(f'{len(cands)} candidates for LayoutItem::serialize_to_xml')
        it = M.Interp(cands[0], consts)
        it.stop_at = ('write_event',)
        paths = [p for p in it.run(max_paths=200) if p.end == 'stop']
        if len(paths) != 32:
            bad.append(f'{len(paths)} paths, expected 32')
        for p in paths:
            s = z3.Solver()
            s.add(*p.pc)
            present = {}
            for f in xml_of:
                d = it.leaf(f'_1.*.{fields.index(f)}.discr', 'isize')
                present[f] = s.check(d != 1) == z3.unsat
            written = {}
            for c in p.calls:
                if c.callee.endswith('push_attribute') and isinstance(c.args[1], M.Tup) and isinstance(c.args[1].items[0], tuple):
                    v = c.args[1].items[1]
                    src = None
                    for _ in range(8):
                        n = it.name_of(v) if not z3.is_expr(v) else str(v)
                        m = re.search(r'_1\.\*\.(\d+)@Some', n or '')
                        if m:
                            src = int(m.group(1))
                            break
                        if isinstance(v, M.Ref):
                            v = v.target
                        elif isinstance(v, M.Call) and v.args:
                            v = v.args[0]
                        else:
                            break
                    written[c.args[1].items[0][1]] = src
            for f, x in xml_of.items():
                if present[f] != (x in written):
                    bad.append(f'{x} written={x in written} although {f} present={present[f]}')
                if x in written and written[x] != fields.index(f):
                    bad.append(f'{x} is written from field #{written[x]} instead of {f}')
            for x in written:
                if x not in xml_of.values():
                    bad.append(f'unexpected attribute {x}')
    except (M.MirError, ValueError) as e:
        obs.append(_finish(ob, t0, [f'MIR not interpretable: {e}'], unknown=True))
    else:
        obs.append(_finish(ob, t0, sorted(set(bad))))

    # --- LayoutFlow::parse count check --------------------------------------------------------------------------
    ob = _ob('c12_mir_flow_count_check', 'uigen::layout::LayoutFlow::parse::{closure#0}::{closure#0}', 'all counts c (mathematical integers)',
             'a columns/rows count is used iff 1 <= c <= 65536; every other value pushes a diagnostic')
    t0 = time.time()
    bad = []
    try:
        fn = M.find_fn(fns, r'>::parse::\{closure#0\}::\{closure#0\}$')
        it = M.Interp(fn, consts)
        c = it.leaf('_2.1', 'i32')
        paths = [p for p in it.run() if p.end == 'return']
        ok_range = z3.And(c >= 1, c <= 65536)
        for p in paths:
            r = p.ret
            if isinstance(r, M.Adt) and r.path.endswith('Option::Some'):
                _unsat(p.pc + [z3.Or(z3.Not(ok_range), r.fields[0] != c)], bad, 'a count outside [1, 65536] (or another value) is used')
            elif isinstance(r, M.Adt) and r.path.endswith('Option::None'):
                _unsat(p.pc + [ok_range], bad, 'a count inside [1, 65536] is refused')
                if not any(k.callee.endswith('Diagnostics::push') for k in p.calls):
                    bad.append('a refused count is not diagnosed')
            else:
                bad.append(f'unexpected return {r!r}')
        _unsat([z3.Not(z3.Or([z3.And(p.pc) for p in paths]))], bad, 'path conditions are not exhaustive')
    except (M.MirError, ValueError) as e:
        obs.append(_finish(ob, t0, [f'MIR not interpretable: {e}'], unknown=True))
    else:
        obs.append(_finish(ob, t0, bad, unknown=any(b.startswith('UNKNOWN') for b in bad)))
    return obs
