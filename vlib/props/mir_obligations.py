"""Obligations decided on the MIR of the current tree (engine C).  Each returns a list of dicts
{name, function, bound, covers, result, time_s, detail}; result is 'holds' | 'VIOLATED' | 'inconclusive'."""
import re, time
import z3
from .. import common as C, mir as M


def _ob(name, function, bound, covers):
    return {'name': name, 'function': function, 'bound': bound, 'covers': covers, 'kind': 'mir-smt', 'result': None, 'time_s': 0.0, 'detail': ''}


def _finish(ob, t0, bad, unknown=False):
    ob['time_s'] = round(time.time() - t0, 3)
    if unknown:
        ob['result'] = 'inconclusive'
    else:
        ob['result'] = 'VIOLATED' if bad else 'holds'
    ob['detail'] = '; '.join(bad)[:1500] if bad else ob['detail']
    return ob


def _unsat(query, bad, msg):
    """adds msg (with the model) to bad if query is satisfiable"""
    r = M.check(query)
    if r == 'unsat':
        return True
    if r == 'unknown':
        bad.append('UNKNOWN: ' + msg)
        return None
    bad.append(f'{msg}  [model: {r[1]}]')
    return False


# ================================================================================================ C12
def capture_names(fn, it):
    """closure captures: opaque name of `(*_1).k` -> source name from MIR debug info"""
    names = {}
    p = M.Path()
    for src, place in fn.debug.items():
        if '(*_1)' in place or '(_1.' in place:
            try:
                v = it.place(place, p)
            except M.MirError:
                continue
            n = it.name_of(v)
            if n:
                names[re.sub(r'\.\*$', '', n)] = src
    return names


def c12_layout(fns, consts):
    obs = []
    row, col = z3.Ints('row column')

    def model(c, it):
        if c.callee.endswith('parse_next'):
            return M.Tup([row, col])
        return None

    def some_of(v):
        return v.fields[0] if isinstance(v, M.Adt) and v.path.endswith('Option::Some') and len(v.fields) == 1 else None

    # --- grid / form / vbox / hbox closures ------------------------------------------------------
    specs = [
        ('grid', r'^process_grid_layout_children::\{closure#0\}$', {'column_minimum_width': ('column', 'column_minimum_width'), 'column_stretch': ('column', 'column_stretch'),
                                                                    'row_minimum_height': ('row', 'row_minimum_height'), 'row_stretch': ('row', 'row_stretch')}),
        ('form', r'^process_form_layout_children::\{closure#0\}$', {}),
        ('vbox', r'^process_vbox_layout_children::\{closure#0\}$', {'stretch': ('position', 'row_stretch')}),
        ('hbox', r'^process_hbox_layout_children::\{closure#0\}$', {'stretch': ('position', 'column_stretch')}),
    ]
    for kind, pat, arrays in specs:
        ob = _ob(f'c12_mir_{kind}_closure', f'uigen::layout::process_{kind}_layout_children::{{closure#0}}',
                 'all (row, column) / positions as mathematical integers; calls uninterpreted; usize casts value-preserving (indices are >= 0 by parse_next)',
                 {'grid': 'each per-row setting is recorded at the child\'s row and each per-column one at its column, fed by the getter of the same name; the item gets (Some(row), Some(column))',
                  'form': 'the item gets (Some(row), Some(column)) as returned by parse_next, in this order',
                  'vbox': 'stretch is recorded at the child\'s position from Layout.rowStretch; item has no cell',
                  'hbox': 'stretch is recorded at the child\'s position from Layout.columnStretch; item has no cell'}[kind])
        t0 = time.time()
        bad = []
        try:
            fn = M.find_fn(fns, pat)
            it = M.Interp(fn, consts, call_model=model)
            paths = [p for p in it.run() if p.end == 'return']
            if len(paths) != 1:
                raise M.MirError(f'{len(paths)} returning paths (expected straight-line code)')
            p = paths[0]
            caps = capture_names(fn, it)
            pos = it.leaf('_2.0', 'usize') if kind in ('vbox', 'hbox') else None
            inserts = [c for c in p.calls if c.callee.endswith('maybe_insert_into_opt_i32_array')]
            seen = set()
            for c in inserts:
                arr = caps.get(it.name_of(c.args[0]) or '', '?')
                arr_short = arr.replace('attributes__', '')
                getter = c.args[2].callee.split('::')[-1] if isinstance(c.args[2], M.Call) else repr(c.args[2])
                idx = c.args[1]
                if arr_short not in arrays:
                    bad.append(f'insertion into unexpected array {arr}')
                    continue
                seen.add(arr_short)
                want_idx, want_getter = arrays[arr_short]
                expected = {'row': row, 'column': col, 'position': pos}[want_idx]
                if not z3.is_expr(idx):
                    bad.append(f'{arr}: index is not an integer term: {idx!r}')
                    continue
                extra = [row != col] if kind == 'grid' else []
                _unsat(extra + [row >= 0, col >= 0, idx != expected], bad, f'{arr} is indexed by {idx}, documented index is the {want_idx}')
                if getter != want_getter:
                    bad.append(f'{arr} is fed by Layout.{getter}, expected {want_getter}')
            for a in arrays:
                if a not in seen:
                    bad.append(f'no insertion into {a}')
            news = [c for c in p.calls if c.callee.endswith('LayoutItem::new')]
            if len(news) != 1:
                bad.append(f'{len(news)} LayoutItem::new calls')
            else:
                a0, a1 = news[0].args[0], news[0].args[1]
                if kind in ('grid', 'form'):
                    r_, c_ = some_of(a0), some_of(a1)
                    if r_ is None or c_ is None:
                        bad.append(f'item cell is ({a0!r}, {a1!r}), expected (Some(row), Some(column))')
                    else:
                        _unsat([row != col, z3.Or(r_ != row, c_ != col)], bad, f'item gets cell ({r_}, {c_}) instead of (row, column)')
                else:
                    if not (isinstance(a0, M.Adt) and a0.path.endswith('None') and isinstance(a1, M.Adt) and a1.path.endswith('None')):
                        bad.append(f'box layout item gets a cell: ({a0!r}, {a1!r})')
            ob['detail'] = f'{len(inserts)} insertions, arrays {sorted(seen)}'
        except M.MirError as e:
            obs.append(_finish(ob, t0, [f'MIR not interpretable: {e}'], unknown=True))
            continue
        obs.append(_finish(ob, t0, bad, unknown=any(b.startswith('UNKNOWN') for b in bad)))

    # --- parse_next ------------------------------------------------------------------------------
    ob = _ob('c12_mir_parse_next', 'uigen::layout::LayoutIndexCounter::parse_next', 'all column/row counts (mathematical integers), both flows',
             'Layout.row is validated against max_row and passed first, Layout.column against max_column and passed second to next(); (max_row,max_column) = (65535, columns-1) / (rows-1, 65535)')
    t0 = time.time()
    bad = []
    try:
        fn = M.find_fn(fns, r'::parse_next$')
        it = M.Interp(fn, consts)
        paths = [p for p in it.run() if p.end == 'return']
        flows = {}
        for p in paths:
            tr = '\n'.join(p.trace)
            flow = 'LeftToRight' if ' as LeftToRight)' in tr else ('TopToBottom' if ' as TopToBottom)' in tr else None)
            if flow is None or flow in flows:
                bad.append('cannot attribute a path to a flow')
                continue
            flows[flow] = p
            count = it.leaf(f'_1.*.0@{flow}.0', 'i32')
            parses = [c for c in p.calls if c.callee.endswith('maybe_parse_layout_index')]
            nxt = [c for c in p.calls if c.callee.endswith('LayoutIndexCounter::next')]
            if len(parses) != 2 or len(nxt) != 1:
                bad.append(f'{flow}: {len(parses)} index parses, {len(nxt)} next() calls')
                continue
            by_field = {}
            for c in parses:
                field = c.args[0][1] if isinstance(c.args[0], tuple) else None
                getter = c.args[1].callee.split('::')[-1] if isinstance(c.args[1], M.Call) else None
                by_field[field] = (c, getter)
            if set(by_field) != {'row', 'column'}:
                bad.append(f'{flow}: parsed fields {sorted(map(str, by_field))}')
                continue
            for field in ('row', 'column'):
                c, getter = by_field[field]
                if getter != field:
                    bad.append(f'{flow}: field "{field}" is read from Layout.{getter}')
                want = {('LeftToRight', 'row'): z3.IntVal(65535), ('LeftToRight', 'column'): count - 1,
                        ('TopToBottom', 'row'): count - 1, ('TopToBottom', 'column'): z3.IntVal(65535)}[(flow, field)]
                if not z3.is_expr(c.args[2]):
                    bad.append(f'{flow}: max for {field} is {c.args[2]!r}')
                else:
                    _unsat([c.args[2] != want], bad, f'{flow}: {field} is validated against {c.args[2]}, documented maximum is {want}')
            if nxt[0].args[1] is not by_field['row'][0] and nxt[0].args[1] is not getattr(by_field['row'][0], 'result', None):
                bad.append(f'{flow}: next() receives {nxt[0].args[1]!r} as row')
            if nxt[0].args[2] is not by_field['column'][0] and nxt[0].args[2] is not getattr(by_field['column'][0], 'result', None):
                bad.append(f'{flow}: next() receives {nxt[0].args[2]!r} as column')
            if p.ret is not nxt[0] and p.ret is not getattr(nxt[0], 'result', None):
                bad.append(f'{flow}: result of next() is not what parse_next returns')
        if set(flows) != {'LeftToRight', 'TopToBottom'}:
            bad.append(f'flows seen: {sorted(flows)}')
    except M.MirError as e:
        bad = [f'MIR not interpretable: {e}']
        obs.append(_finish(ob, t0, bad, unknown=True))
    else:
        obs.append(_finish(ob, t0, bad, unknown=any(b.startswith('UNKNOWN') for b in bad)))

    # --- maybe_parse_layout_index ------------------------------------------------------------------
    ob = _ob('c12_mir_parse_layout_index', 'uigen::layout::maybe_parse_layout_index (+ closure)', 'all v, max (mathematical integers)',
             'Some(v) iff 0 <= v <= max; every rejected value pushes a diagnostic; the closure receives max_index and is applied to the attached value')
    t0 = time.time()
    bad = []
    try:
        fn = M.find_fn(fns, r'^maybe_parse_layout_index::\{closure#0\}$')
        it = M.Interp(fn, consts)
        v = it.leaf('_2.1', 'i32')
        mx = it.leaf('_1.2.*', 'i32')
        paths = [p for p in it.run() if p.end == 'return']
        in_range = z3.And(v >= 0, v <= mx)
        nsome = 0
        for p in paths:
            r = p.ret
            if isinstance(r, M.Adt) and r.path.endswith('Option::Some'):
                nsome += 1
                if not (z3.is_expr(r.fields[0])):
                    bad.append('Some(non-integer)')
                    continue
                _unsat(p.pc + [z3.Or(z3.Not(in_range), r.fields[0] != v)], bad, 'a value outside [0, max] (or another value) is let through')
            elif isinstance(r, M.Adt) and r.path.endswith('Option::None'):
                _unsat(p.pc + [in_range], bad, 'a value inside [0, max] is rejected')
                if not any(c.callee.endswith('Diagnostics::push') for c in p.calls):
                    bad.append('a rejected value is not diagnosed')
            else:
                bad.append(f'unexpected return {r!r}')
        # coverage of the case split: the three path conditions are exhaustive
        _unsat([z3.Not(z3.Or([z3.And(p.pc) for p in paths]))], bad, 'path conditions are not exhaustive')
        if nsome != 1:
            bad.append(f'{nsome} accepting paths')
        outer = M.find_fn(fns, r'^maybe_parse_layout_index$')
        ot = M.Interp(outer, consts)
        ops = [p for p in ot.run() if p.end == 'return']
        ok = False
        for p in ops:
            for c in p.calls:
                if c.callee.endswith('and_then') and len(c.args) == 2:
                    clo = c.args[1]
                    if isinstance(clo, M.Adt) and len(clo.fields) == 3 and isinstance(clo.fields[2], M.Ref) and ot.name_of(clo.fields[2].target) == '_3' \
                            and ot.name_of(c.args[0]) == '_2' and (p.ret is c or p.ret is getattr(c, 'result', None)):
                        ok = True
        if not ok:
            bad.append('outer function does not apply the closure (capturing max_index) to the attached value')
    except M.MirError as e:
        obs.append(_finish(ob, t0, [f'MIR not interpretable: {e}'], unknown=True))
    else:
        obs.append(_finish(ob, t0, bad, unknown=any(b.startswith('UNKNOWN') for b in bad)))
    return obs


# ------------------------------------------------------------------------------------------------ replay C12
ATTACHED = {'row_minimum_height': ('rowMinimumHeight', 'rowminimumheight', 'row'), 'row_stretch': ('rowStretch', 'rowstretch', 'row'),
            'column_minimum_width': ('columnMinimumWidth', 'columnminimumwidth', 'column'), 'column_stretch': ('columnStretch', 'columnstretch', 'column')}


def replay_grid_attribute(array, workdir):
    """CLI replay: a 3-column grid whose 4th child (cell row 1, column 0) carries the attached setting; the
    attribute must hold the value at the index of the child's row (row-wise) or column (column-wise).
    -> (reproduced, info)"""
    import os, subprocess
    from ..tv import driver as D
    qml_name, attr, axis = ATTACHED[array]
    text = ('import qmluic.QtWidgets\nQWidget {\n  QGridLayout {\n    columns: 3\n    QLabel {}\n    QLabel {}\n    QLabel {}\n'
            f'    QLabel {{ QLayout.{qml_name}: 7 }}\n  }}\n}}\n')
    os.makedirs(workdir, exist_ok=True)
    r = D.run_cli(C.build_native(), workdir, text, 'Grid')
    if r.rc != 0 or r.ui is None:
        return None, {'error': 'grid document rejected: ' + r.stderr[-400:]}
    m = re.search(attr + r'="([^"]*)"', r.ui)
    actual = m.group(1) if m else None
    expected = '0,7' if axis == 'row' else '7'
    info = {'document': text, 'attribute': attr, 'expected': expected, 'actual': actual, 'cell': '(row 1, column 0)'}
    with open(os.path.join(workdir, 'README.txt'), 'w') as f:
        f.write(f'qmluic generate-ui Grid.qml; {attr} expected "{expected}" (child in row 1, column 0), got "{actual}"\n')
    return actual != expected, info


def _grid(body, head='columns: 2'):
    return f'import qmluic.QtWidgets\nQWidget {{\n  QGridLayout {{\n    {head}\n{body}  }}\n}}\n'


LAYOUT_PROBES = [
    # (name, document, expectation)   expectation: ('reject', fragment) | ('cells', [(row, col)...]) | ('attr', name, value)
    ('ltr: column beyond columns-1 is diagnosed', _grid('    QLabel { QLayout.column: 2 }\n'), ('reject', 'column is too large')),
    ('ltr: column = columns-1 accepted', _grid('    QLabel { QLayout.column: 1 }\n    QLabel {}\n'), ('cells', [(0, 1), (1, 0)])),
    ('ltr: row up to 65535 accepted', _grid('    QLabel { QLayout.row: 5 }\n    QLabel {}\n'), ('cells', [(5, 0), (5, 1)])),
    ('ltr: row 65536 diagnosed', _grid('    QLabel { QLayout.row: 65536 }\n'), ('reject', 'row is too large')),
    ('ltr: negative row diagnosed', _grid('    QLabel { QLayout.row: -1 }\n'), ('reject', 'negative row')),
    ('ltr: negative column diagnosed', _grid('    QLabel { QLayout.column: -1 }\n'), ('reject', 'negative column')),
    ('ltr: explicit row and column are not swapped', _grid('    QLabel { QLayout.row: 1; QLayout.column: 0 }\n'), ('cells', [(1, 0)])),
    ('ttb: row beyond rows-1 is diagnosed', _grid('    QLabel { QLayout.row: 2 }\n', 'flow: QGridLayout.TopToBottom; rows: 2'), ('reject', 'row is too large')),
    ('ttb: column up to 65535 accepted', _grid('    QLabel { QLayout.column: 5 }\n    QLabel {}\n', 'flow: QGridLayout.TopToBottom; rows: 2'), ('cells', [(0, 5), (1, 5)])),
    ('ttb: column 65536 diagnosed', _grid('    QLabel { QLayout.column: 65536 }\n', 'flow: QGridLayout.TopToBottom; rows: 2'), ('reject', 'column is too large')),
    ('form: cells', 'import qmluic.QtWidgets\nQWidget {\n  QFormLayout {\n    QLabel {}\n    QLabel {}\n    QLabel { QLayout.row: 3; QLayout.column: 1 }\n  }\n}\n', ('cells', [(0, 0), (0, 1), (3, 1)])),
    ('vbox: stretch at position', 'import qmluic.QtWidgets\nQWidget {\n  QVBoxLayout {\n    QLabel {}\n    QLabel { QLayout.rowStretch: 3 }\n  }\n}\n', ('attr_at', 'stretch', 1, '3', 2)),
    ('hbox: stretch at position', 'import qmluic.QtWidgets\nQWidget {\n  QHBoxLayout {\n    QLabel {}\n    QLabel {}\n    QLabel { QLayout.columnStretch: 4 }\n  }\n}\n', ('attr_at', 'stretch', 2, '4', 3)),
]


def replay_layout_probes(workdir):
    """CLI replay for refutations in parse_next / index range check / box and form closures: fixed probe documents
    around the documented boundaries.  -> (reproduced, info)"""
    import os
    from ..tv import driver as D
    os.makedirs(workdir, exist_ok=True)
    q = C.build_native()
    failed = []
    for i, (name, text, exp) in enumerate(LAYOUT_PROBES):
        r = D.run_cli(q, workdir, text, f'Probe{i}')
        if exp[0] == 'reject':
            ok = r.rc != 0 and exp[1] in r.stderr
            got = f'rc={r.rc} ' + r.stderr.strip().split('\n')[0][:120] if r.stderr.strip() else f'rc={r.rc}'
        elif r.rc != 0 or r.ui is None:
            ok, got = False, 'rejected: ' + r.stderr.strip()[:200]
        elif exp[0] == 'cells':
            cells = [(int(a), int(b)) for a, b in re.findall(r'<item[^>]*\brow="(\d+)"[^>]*\bcolumn="(\d+)"', r.ui)]
            if not cells:
                cells = [(int(b), int(a)) for a, b in re.findall(r'<item[^>]*\bcolumn="(\d+)"[^>]*\brow="(\d+)"', r.ui)]
            ok, got = cells == exp[1], cells
        else:
            # the value sits at the child's position (what unspecified entries default to is not C12's subject)
            m = re.search(r'\b' + exp[1] + r'="([^"]*)"', r.ui)
            got = m.group(1) if m else None
            parts = got.split(',') if got else []
            ok = len(parts) == exp[4] and parts[exp[2]] == exp[3]
        if not ok:
            failed.append({'probe': name, 'document': text, 'expected': exp, 'actual': got})
    with open(os.path.join(workdir, 'README.txt'), 'w') as f:
        f.write('qmluic generate-ui Probe<i>.qml for each probe; failed: %s\n' % failed)
    return bool(failed), {'failed_probes': failed}


# ================================================================================================ C19
def c19_color(fns, consts):
    import os
    obs = []
    # --- keyword table ----------------------------------------------------------------------------------
    ob = _ob('c19_mir_svg_table', 'color::SVG_NAMED_COLORS::{closure#0} + color::ColorRgb8::new',
             'the whole initialiser (147 rows), every keyword string (z3 string variable)',
             'as a map keyword -> (r,g,b) the table equals the SVG 1.1 colour keyword table (data/svg_colors.txt); later duplicates win as in HashMap::from')
    t0 = time.time()
    bad = []
    try:
        new_fn = M.find_fn(fns, r'impl at src/color\.rs.*>::new$|^ColorRgb8::new$') if False else None
        cands = [f for n, f in fns.items() if n.endswith('::new') and '-> ColorRgb8' in f.header]
        if len(cands) != 1:
            raise M.MirError(f'{len(cands)} candidates for ColorRgb8::new')
        new_fn = cands[0]

        def model(c, it):
            if c.callee.endswith('ColorRgb8::new') and len(c.args) == 3:
                sub = M.Interp(new_fn, consts, arg_values={'_1': c.args[0], '_2': c.args[1], '_3': c.args[2]})
                ps = [p for p in sub.run() if p.end == 'return']
                if len(ps) != 1 or not isinstance(ps[0].ret, M.Adt) or not ps[0].ret.names:
                    raise M.MirError('ColorRgb8::new is not a plain struct literal')
                return ps[0].ret
            return None
        fn = M.find_fn(fns, r'^SVG_NAMED_COLORS::\{closure#0\}$')
        it = M.Interp(fn, consts, call_model=model)
        ps = [p for p in it.run() if p.end == 'return']
        if len(ps) != 1:
            raise M.MirError(f'{len(ps)} paths')
        froms = [c for c in ps[0].calls if 'From<' in c.callee or c.callee.endswith('::from')]
        if len(froms) != 1 or not isinstance(froms[0].args[0], M.Tup):
            raise M.MirError('table is not built by one HashMap::from(array)')
        rows = []
        for e in froms[0].args[0].items:
            if not (isinstance(e, M.Tup) and len(e.items) == 2 and isinstance(e.items[0], tuple) and isinstance(e.items[1], M.Adt)):
                raise M.MirError(f'row {e!r}')
            rgb = e.items[1]
            rows.append((e.items[0][1], rgb.field('red'), rgb.field('green'), rgb.field('blue')))
        ref = []
        with open(os.path.join(C.VERIF, 'data', 'svg_colors.txt')) as f:
            for ln in f:
                if ln.strip() and not ln.startswith('#'):
                    n, r, g, b = ln.split()
                    ref.append((n, int(r), int(g), int(b)))
        s = z3.String('keyword')

        def lookup(table):
            v = z3.IntVal(-1)
            for (n, r, g, b) in table:          # later rows end up outermost: they win
                packed = (r * 65536 + g * 256 + b) if not isinstance(r, int) else z3.IntVal(r * 65536 + g * 256 + b)
                v = z3.If(s == z3.StringVal(n), packed, v)
            return v
        ranges = []
        for (n, r, g, b) in rows:
            for ch in (r, g, b):
                ranges.append(z3.And(ch >= 0, ch <= 255))
        _unsat([z3.Not(z3.And(ranges))], bad, 'a channel constant is outside 0..255')
        res = _unsat([lookup(rows) != lookup(ref)], bad, 'keyword table differs from SVG 1.1')
        if res is False:
            # name the offending keyword (from the model) for the replay
            r = M.check([lookup(rows) != lookup(ref)])
            kw = r[1].eval(s, model_completion=True).as_string()
            ob['keyword'] = kw
            got = [x for x in rows if x[0] == kw]
            want = [x for x in ref if x[0] == kw]
            ob['got'] = [str(z3.simplify(v)) if z3.is_expr(v) else v for v in (got[-1][1:] if got else ())]
            ob['want'] = list(want[-1][1:]) if want else None
        if len(rows) != 147:
            bad.append(f'{len(rows)} rows, SVG 1.1 has 147 keywords')
        ob['detail'] = f'{len(rows)} rows evaluated from MIR constants'
    except M.MirError as e:
        obs.append(_finish(ob, t0, [f'MIR not interpretable: {e}'], unknown=True))
    else:
        obs.append(_finish(ob, t0, bad, unknown=any(b.startswith('UNKNOWN') for b in bad)))

    # --- dispatch of Color::from_str -----------------------------------------------------------------------
    ob = _ob('c19_mir_from_str_dispatch', 'color::<impl FromStr for Color>::from_str', 'all paths of the function (calls uninterpreted)',
             "'#'-prefixed strings go to parse_hex_color (None -> InvalidHex); 'transparent' (ASCII case-insensitive) -> rgba(0,0,0,0); otherwise exact "
             'then lower-cased keyword lookup -> opaque Rgb8 of the table entry; everything else -> UnknownName (rejected, never guessed)')
    t0 = time.time()
    bad = []
    try:
        fn = M.find_fn(fns, r'src/color\.rs.*>::from_str$')
        it = M.Interp(fn, consts)
        ps = [p for p in it.run() if p.end == 'return']
        kinds = []
        for p in ps:
            names = [c.callee.split('::')[-1] for c in p.calls]
            r = p.ret
            def arg_is(c, i, what):
                a = c.args[i]
                return it.name_of(a) == what or (isinstance(a, M.Call) and a.callee.endswith(what)) or (isinstance(a, tuple) and a[1] == what)
            if 'parse_hex_color' in names:
                sp = [c for c in p.calls if c.callee.endswith('strip_prefix')]
                hx = [c for c in p.calls if c.callee.endswith('parse_hex_color')][0]
                ok = (len(sp) == 1 and sp[0].args[1] == ('char', '#') and isinstance(r, M.Call) and r.callee.endswith('ok_or')
                      and r.args[0] is hx and isinstance(r.args[1], M.Adt) and r.args[1].path.endswith('InvalidHex')
                      and it.name_of(hx.args[0]) == sp[0].name + '@Some.0')
                kinds.append('hex')
                if not ok:
                    bad.append('hex path: not `strip_prefix(\'#\') -> parse_hex_color(rest).ok_or(InvalidHex)`')
            elif 'rgba8' in names:
                c = [c for c in p.calls if c.callee.endswith('rgba8')][0]
                eq = [c2 for c2 in p.calls if c2.callee.endswith('eq_ignore_ascii_case')]
                zeros = all(z3.is_int_value(a) and a.as_long() == 0 for a in c.args)
                ok = (zeros and len(c.args) == 4 and len(eq) == 1 and eq[0].args[1] == ('str', 'transparent')
                      and isinstance(r, M.Adt) and r.path.endswith('::Ok') and r.fields[0] is c)
                kinds.append('transparent')
                if not ok:
                    bad.append("transparent path: not `eq_ignore_ascii_case(src, \"transparent\") -> Ok(rgba8(0,0,0,0))`")
            elif isinstance(r, M.Adt) and r.path.endswith('::Ok'):
                v = r.fields[0]
                gets = [c for c in p.calls if c.callee.endswith('::get')]
                ok = isinstance(v, M.Adt) and v.path.endswith('Color::Rgb8') and gets and it.name_of(v.fields[0]) == gets[-1].name + '@Some.0.*'
                lower = 'to_ascii_lowercase' in names
                kinds.append('keyword-lower' if lower else 'keyword-exact')
                if not ok:
                    bad.append('keyword path does not return Ok(Rgb8(<table entry>))')
                if lower:
                    lc = [c for c in p.calls if c.callee.endswith('to_ascii_lowercase')][0]
                    if it.name_of(lc.args[0]) != '_1':
                        bad.append('lower-casing is not applied to the input string')
            elif isinstance(r, M.Adt) and r.path.endswith('::Err'):
                kinds.append('unknown')
                if not (isinstance(r.fields[0], M.Adt) and r.fields[0].path.endswith('UnknownName')):
                    bad.append('fallback is not Err(UnknownName)')
                if len([c for c in p.calls if c.callee.endswith('::get')]) != 2:
                    bad.append('unknown-name path does not try both lookups')
            else:
                bad.append(f'unexpected path returning {r!r}')
        if sorted(kinds) != sorted(['hex', 'transparent', 'keyword-exact', 'keyword-lower', 'unknown']):
            bad.append(f'paths: {sorted(kinds)}')
        ob['detail'] = f'paths: {sorted(kinds)}'
    except M.MirError as e:
        obs.append(_finish(ob, t0, [f'MIR not interpretable: {e}'], unknown=True))
    else:
        obs.append(_finish(ob, t0, bad))
    return obs


def replay_color_keyword(keyword, want, workdir):
    """CLI replay: QColor-typed property bound to the keyword; compare the <color> element with the SVG value"""
    import os
    from ..tv import driver as D
    text = f'import qmluic.QtWidgets\nQWidget {{\n  QGraphicsView {{ backgroundBrush.color: "{keyword}" }}\n}}\n'
    os.makedirs(workdir, exist_ok=True)
    r = D.run_cli(C.build_native(), workdir, text, 'Color')
    if r.ui is None:
        got = 'rejected: ' + r.stderr.strip()[:200]
        rgb = None
    else:
        ch = {k: re.search(rf'<{k}>(\d+)</{k}>', r.ui) for k in ('red', 'green', 'blue')}
        rgb = [int(ch[k].group(1)) for k in ('red', 'green', 'blue')] if all(ch.values()) else None
        got = rgb
    info = {'document': text, 'keyword': keyword, 'expected': want, 'actual': got}
    with open(os.path.join(workdir, 'README.txt'), 'w') as f:
        f.write(f'qmluic generate-ui Color.qml ; <color> of "{keyword}": expected {want}, got {got}\n')
    if want is None:
        return r.ui is not None, info        # a keyword SVG does not have must be rejected
    return rgb != list(want), info


# ================================================================================================ C01 / C03
def ceval_divrem(fns, consts):
    """operand order and primitive selection of the integer / % folds at full width, and of all float folds"""
    obs = []
    ob = _ob('ceval_mir_arith_dispatch', 'tir::ceval::eval_binary_arith_expression (MIR) + <BinaryArithOp as Display>::fmt',
             'all operand values (primitives checked_*/IEEE ops left uninterpreted => full 64-bit width)',
             'on (Integer, Integer) each operator calls its own checked_* primitive on (left, right) in this order and None becomes IntegerOverflow; '
             'on (Float, Float) each operator applies its own IEEE operation to (left, right) in this order')
    t0 = time.time()
    bad = []
    try:
        # discriminant -> operator symbol, from the Display impl of the same enum
        disp = [f for n, f in fns.items() if n.endswith('::fmt') and '&BinaryArithOp' in f.header
                and any('const "+"' in l for b in f.blocks.values() for l in b)]
        if len(disp) != 1:
            raise M.MirError(f'{len(disp)} Display impls for BinaryArithOp')
        dt = M.Interp(disp[0], consts)
        sym = {}
        for p in dt.run():
            if p.end != 'return':
                continue
            strs = [v[1] for v in p.env.values() if isinstance(v, tuple) and v[0] == 'str' and v[1] in '+-*/%' and len(v[1]) == 1]
            dvals = []
            for c in p.pc:
                m = re.fullmatch(r'(\S+) == (\d+)', str(c))
                if m:
                    dvals.append(int(m.group(2)))
            if len(strs) == 1 and len(dvals) == 1:
                sym[dvals[0]] = strs[0]
        if sorted(sym.values()) != sorted('+-*/%'):
            raise M.MirError(f'cannot recover operator symbols from Display: {sym}')
        fn = M.find_fn(fns, r'^eval_binary_arith_expression$')
        it = M.Interp(fn, consts)
        paths = [p for p in it.run(max_paths=2000) if p.end == 'return']
        li, ri = it.leaf('_2@Integer.0', 'i64'), it.leaf('_3@Integer.0', 'i64')
        lf, rf = it.leaf('_2@Float.0', 'f64'), it.leaf('_3@Float.0', 'f64')
        opd = it.leaf('_1.discr', 'isize')
        want_int = {'+': 'checked_add', '-': 'checked_sub', '*': 'checked_mul', '/': 'checked_div', '%': 'checked_rem'}
        seen_int, seen_f = set(), set()
        frem = z3.Function('frem', z3.Float64(), z3.Float64(), z3.Float64())
        for p in paths:
            tr = '\n'.join(p.trace)
            if ' as Integer).0' in tr:
                prim = [c for c in p.calls if re.search(r'::checked_\w+$', c.callee)]
                if len(prim) != 1:
                    bad.append(f'integer path with {len(prim)} checked_* calls')
                    continue
                c = prim[0]
                # which operator does this path belong to?
                s = z3.Solver()
                s.add(*p.pc)
                ops = [k for k in sym if s.check(opd == k) == z3.sat]
                if len(ops) != 1:
                    bad.append(f'integer path for operators {ops}')
                    continue
                o = sym[ops[0]]
                seen_int.add(o)
                if c.callee.split('::')[-1] != want_int[o]:
                    bad.append(f"'{o}' on integers calls {c.callee.split('::')[-1]} instead of {want_int[o]}")
                if not (z3.is_expr(c.args[0]) and z3.is_expr(c.args[1])):
                    bad.append(f"'{o}': operands are not the two payloads")
                else:
                    _unsat([li != ri, z3.Or(c.args[0] != li, c.args[1] != ri)], bad, f"'{o}' on integers is applied to ({c.args[0]}, {c.args[1]}) instead of (left, right)")
                r = p.ret
                ok = isinstance(r, M.Call) and r.callee.endswith('ok_or') and isinstance(r.args[1], M.Adt) and r.args[1].path.endswith('IntegerOverflow') \
                    and isinstance(r.args[0], M.Call) and r.args[0].callee.endswith('::map') and r.args[0].args[0] is c
                if not ok:
                    bad.append(f"'{o}': result is not checked(l, r).map(Integer).ok_or(IntegerOverflow)")
            elif ' as Float).0' in tr:
                s = z3.Solver()
                s.add(*p.pc)
                ops = [k for k in sym if s.check(opd == k) == z3.sat]
                if len(ops) != 1:
                    bad.append(f'float path for operators {ops}')
                    continue
                o = sym[ops[0]]
                seen_f.add(o)
                r = p.ret
                val = r.fields[0].fields[0] if isinstance(r, M.Adt) and r.path.endswith('::Ok') and isinstance(r.fields[0], M.Adt) and r.fields[0].path.endswith('ConstantValue::Float') else None
                if val is None or not z3.is_fp(val):
                    bad.append(f"'{o}' on doubles does not return Ok(Float(..))")
                    continue
                # structural comparison with the IEEE operation on (left, right); % uses an uninterpreted symbol
                exp = {'+': z3.fpAdd(z3.RNE(), lf, rf), '-': z3.fpSub(z3.RNE(), lf, rf), '*': z3.fpMul(z3.RNE(), lf, rf),
                       '/': z3.fpDiv(z3.RNE(), lf, rf), '%': z3.fpRem(lf, rf)}[o]
                if not z3.eq(z3.simplify(val), z3.simplify(exp)):
                    bad.append(f"'{o}' on doubles computes {val} instead of the IEEE operation on (left, right)")
        if seen_int != set('+-*/%'):
            bad.append(f'integer operators seen: {sorted(seen_int)}')
        if seen_f != set('+-*/%'):
            bad.append(f'double operators seen: {sorted(seen_f)}')
        ob['detail'] = f'operator symbols from Display: {sym}; {len(paths)} returning paths'
    except M.MirError as e:
        obs.append(_finish(ob, t0, [f'MIR not interpretable: {e}'], unknown=True))
    else:
        obs.append(_finish(ob, t0, bad, unknown=any(b.startswith('UNKNOWN') for b in bad)))
    return obs


def replay_ceval(workdir):
    """CLI replay for refutations of the fold dispatch: constant expressions on both sides of the interesting
    asymmetries (non-commutative operators, negative dividends), read back from the .ui"""
    import os
    from ..tv import driver as D
    os.makedirs(workdir, exist_ok=True)
    q = C.build_native()
    probes = [('17 + 5', 22), ('17 - 5', 12), ('17 * 5', 85), ('17 / 5', 3), ('17 % 5', 2), ('-17 / 5', -3), ('-17 % 5', -2), ('5 - 17', -12), ('5 / 17', 0), ('5 % 17', 5),
              ('9223372036854775807 + 1', None), ('1 / 0', None), ('1 % 0', None), ('(-9223372036854775807 - 1) / -1', None)]
    fprobes = [('7.5 + 2.0', 9.5), ('7.5 - 2.0', 5.5), ('7.5 * 2.0', 15.0), ('7.5 / 2.0', 3.75), ('7.5 % 2.0', 1.5), ('2.0 - 7.5', -5.5), ('2.0 / 8.0', 0.25), ('2.0 % 7.5', 2.0)]
    failed = []
    for i, (e, want) in enumerate(probes + fprobes):
        isf = (e, want) in fprobes
        cls, prop = ('QDoubleSpinBox', 'maximum') if isf else ('QSpinBox', 'maximum')
        text = f'import qmluic.QtWidgets\nQWidget {{\n  {cls} {{ {prop}: {e} }}\n}}\n'
        r = D.run_cli(q, workdir, text, f'Fold{i}')
        if want is None:
            if r.rc == 0:
                failed.append({'expression': e, 'expected': 'rejected', 'actual': 'accepted'})
            continue
        if r.ui is None:
            failed.append({'expression': e, 'expected': want, 'actual': 'rejected: ' + r.stderr.strip()[:100]})
            continue
        m = re.search(r'<property name="maximum">\s*<\w+>([^<]*)<', r.ui)
        got = float(m.group(1)) if m else None
        if got != float(want):
            failed.append({'expression': e, 'expected': want, 'actual': got})
    with open(os.path.join(workdir, 'README.txt'), 'w') as f:
        f.write('qmluic generate-ui Fold<i>.qml; failed: %s\n' % failed)
    return bool(failed), {'failed_probes': failed}


def merge(res, obs, cov, replay, site):
    """adds MIR obligations to a proof-style coverage dict `cov`; refuted ones are replayed through `replay(ob)`
    -> (reproduced, info, key) before being reported"""
    cov.setdefault('obligations', 0)
    cov.setdefault('discharged', 0)
    cov.setdefault('samples', [])
    known = cov.setdefault('known_finding_obligations', [])
    for ob in obs:
        if ob['result'] == 'holds':
            cov['obligations'] += 1
            cov['discharged'] += 1
        elif ob['result'] == 'inconclusive':
            cov['obligations'] += 1
            res.inconc(f"{ob['name']}: {ob['detail'][:400]}")
        else:
            d = C.new_replay_dir(res.prop, ob['name'])
            rep, info, key = replay(ob, d)
            ob['replay'] = info
            if rep:
                new = res.violation(key, f"{ob['name']} ({ob['function']}): {ob['detail'][:600]}\nreplay through the CLI: {str(info)[:600]}", d)
                if not new:
                    ob['decided_as'] = 'known finding'
                    known.append(ob)
                else:
                    cov['obligations'] += 1
            else:
                cov['obligations'] += 1
                res.inconc(f"{ob['name']}: refuted on the MIR ({ob['detail'][:300]}) but the CLI replay did not reproduce it: {str(info)[:300]}")
        cov['samples'].append(ob)
    fe = cov.get('functions_encoded', [])
    if isinstance(fe, list):
        cov['functions_encoded'] = sorted(set(fe) | set(o['function'] for o in obs))
    cov.setdefault('trusted_base', [])
    for t in ('rustc nightly MIR pretty-printer', 'vlib/mir.py symbolic MIR interpreter', 'z3'):
        if t not in cov['trusted_base']:
            cov['trusted_base'].append(t)
    cov['checker_cmd'] = cov.get('checker_cmd', '') + ' ; cargo +nightly rustc -- -Zunpretty=mir + vlib/mir.py + z3'


def load():
    text = M.dump_mir()
    return M.parse_functions(text), M.parse_consts(text)
