"""Obligations decided on the MIR of the current tree (engine C).  Each returns a list of dicts
{name, function, bound, covers, result, time_s, detail}; result is 'holds' | 'VIOLATED' | 'inconclusive'."""
import re, time
import z3
from .. import common as C, mir as M


def _ob(name, function, bound, covers):
    return {'name': name, 'function': function, 'bound': bound, 'covers': covers, 'kind': 'mir-smt', 'result': None, 'time_s': 0.0, 'detail': ''}


def _finish(ob, t0, bad, unknown=False):
    ob['time_s'] = round(time.time() - t0, 3)
    if unknown:
        ob['result'] = 'inconclusive'
    else:
        ob['result'] = 'VIOLATED' if bad else 'holds'
    ob['detail'] = '; '.join(bad)[:1500] if bad else ob['detail']
    return ob


def _unsat(query, bad, msg):
    """adds msg (with the model) to bad if query is satisfiable"""
    r = M.check(query)
    if r == 'unsat':
        return True
    if r == 'unknown':
        bad.append('UNKNOWN: ' + msg)
        return None
    bad.append(f'{msg}  [model: {r[1]}]')
    return False


# ================================================================================================ C12
def capture_names(fn, it):
    """closure captures: opaque name of `(*_1).k` -> source name from MIR debug info"""
    names = {}
    p = M.Path()
    for src, place in fn.debug.items():
        if '(*_1)' in place or '(_1.' in place:
            try:
                v = it.place(place, p)
            except M.MirError:
                continue
            n = it.name_of(v)
            if n:
                names[re.sub(r'\.\*$', '', n)] = src
    return names


def c12_layout(fns, consts):
    obs = []
    row, col = z3.Ints('row column')

    def model(c, it):
        if c.callee.endswith('parse_next'):
            return M.Tup([row, col])
        return None

    def some_of(v):
        return v.fields[0] if isinstance(v, M.Adt) and v.path.endswith('Option::Some') and len(v.fields) == 1 else None

    # --- grid / form / vbox / hbox closures ------------------------------------------------------
    specs = [
        ('grid', r'^process_grid_layout_children::\{closure#0\}$', {'column_minimum_width': ('column', 'column_minimum_width'), 'column_stretch': ('column', 'column_stretch'),
                                                                    'row_minimum_height': ('row', 'row_minimum_height'), 'row_stretch': ('row', 'row_stretch')}),
        ('form', r'^process_form_layout_children::\{closure#0\}$', {}),
        ('vbox', r'^process_vbox_layout_children::\{closure#0\}$', {'stretch': ('position', 'row_stretch')}),
        ('hbox', r'^process_hbox_layout_children::\{closure#0\}$', {'stretch': ('position', 'column_stretch')}),
    ]
    for kind, pat, arrays in specs:
        ob = _ob(f'c12_mir_{kind}_closure', f'uigen::layout::process_{kind}_layout_children::{{closure#0}}',
                 'all (row, column) / positions as mathematical integers; calls uninterpreted; usize casts value-preserving (indices are >= 0 by parse_next)',
                 {'grid': 'each per-row setting is recorded at the child\'s row and each per-column one at its column, fed by the getter of the same name; the item gets (Some(row), Some(column))',
                  'form': 'the item gets (Some(row), Some(column)) as returned by parse_next, in this order',
                  'vbox': 'stretch is recorded at the child\'s position from Layout.rowStretch; item has no cell',
                  'hbox': 'stretch is recorded at the child\'s position from Layout.columnStretch; item has no cell'}[kind])
        t0 = time.time()
        bad = []
        try:
            fn = M.find_fn(fns, pat)
            it = M.Interp(fn, consts, call_model=model)
            paths = [p for p in it.run() if p.end == 'return']
            if len(paths) != 1:
                raise M.MirError(f'{len(paths)} returning paths (expected straight-line code)')
            p = paths[0]
            caps = capture_names(fn, it)
            pos = it.leaf('_2.0', 'usize') if kind in ('vbox', 'hbox') else None
            inserts = [c for c in p.calls if c.callee.endswith('maybe_insert_into_opt_i32_array')]
            seen = set()
            for c in inserts:
                arr = caps.get(it.name_of(c.args[0]) or '', '?')
                arr_short = arr.replace('attributes__', '')
                getter = c.args[2].callee.split('::')[-1] if isinstance(c.args[2], M.Call) else repr(c.args[2])
                idx = c.args[1]
                if arr_short not in arrays:
                    bad.append(f'insertion into unexpected array {arr}')
                    continue
                seen.add(arr_short)
                want_idx, want_getter = arrays[arr_short]
                expected = {'row': row, 'column': col, 'position': pos}[want_idx]
                if not z3.is_expr(idx):
                    bad.append(f'{arr}: index is not an integer term: {idx!r}')
                    continue
                extra = [row != col] if kind == 'grid' else []
                _unsat(extra + [row >= 0, col >= 0, idx != expected], bad, f'{arr} is indexed by {idx}, documented index is the {want_idx}')
                if getter != want_getter:
                    bad.append(f'{arr} is fed by Layout.{getter}, expected {want_getter}')
            for a in arrays:
                if a not in seen:
                    bad.append(f'no insertion into {a}')
            news = [c for c in p.calls if c.callee.endswith('LayoutItem::new')]
            if len(news) != 1:
                bad.append(f'{len(news)} LayoutItem::new calls')
            else:
                a0, a1 = news[0].args[0], news[0].args[1]
                if kind in ('grid', 'form'):
                    r_, c_ = some_of(a0), some_of(a1)
                    if r_ is None or c_ is None:
                        bad.append(f'item cell is ({a0!r}, {a1!r}), expected (Some(row), Some(column))')
                    else:
                        _unsat([row != col, z3.Or(r_ != row, c_ != col)], bad, f'item gets cell ({r_}, {c_}) instead of (row, column)')
                else:
                    if not (isinstance(a0, M.Adt) and a0.path.endswith('None') and isinstance(a1, M.Adt) and a1.path.endswith('None')):
                        bad.append(f'box layout item gets a cell: ({a0!r}, {a1!r})')
            ob['detail'] = f'{len(inserts)} insertions, arrays {sorted(seen)}'
        except M.MirError as e:
            obs.append(_finish(ob, t0, [f'MIR not interpretable: {e}'], unknown=True))
            continue
        obs.append(_finish(ob, t0, bad, unknown=any(b.startswith('UNKNOWN') for b in bad)))

    # --- parse_next ------------------------------------------------------------------------------
    ob = _ob('c12_mir_parse_next', 'uigen::layout::LayoutIndexCounter::parse_next', 'all column/row counts (mathematical integers), both flows',
             'Layout.row is validated against max_row and passed first, Layout.column against max_column and passed second to next(); (max_row,max_column) = (65535, columns-1) / (rows-1, 65535)')
    t0 = time.time()
    bad = []
    try:
        fn = M.find_fn(fns, r'::parse_next$')
        it = M.Interp(fn, consts)
        paths = [p for p in it.run() if p.end == 'return']
        flows = {}
        for p in paths:
            tr = '\n'.join(p.trace)
            flow = 'LeftToRight' if ' as LeftToRight)' in tr else ('TopToBottom' if ' as TopToBottom)' in tr else None)
            if flow is None or flow in flows:
                bad.append('cannot attribute a path to a flow')
                continue
            flows[flow] = p
            count = it.leaf(f'_1.*.0@{flow}.0', 'i32')
            parses = [c for c in p.calls if c.callee.endswith('maybe_parse_layout_index')]
            nxt = [c for c in p.calls if c.callee.endswith('LayoutIndexCounter::next')]
            if len(parses) != 2 or len(nxt) != 1:
                bad.append(f'{flow}: {len(parses)} index parses, {len(nxt)} next() calls')
                continue
            by_field = {}
            for c in parses:
                field = c.args[0][1] if isinstance(c.args[0], tuple) else None
                getter = c.args[1].callee.split('::')[-1] if isinstance(c.args[1], M.Call) else None
                by_field[field] = (c, getter)
            if set(by_field) != {'row', 'column'}:
                bad.append(f'{flow}: parsed fields {sorted(map(str, by_field))}')
                continue
            for field in ('row', 'column'):
                c, getter = by_field[field]
                if getter != field:
                    bad.append(f'{flow}: field "{field}" is read from Layout.{getter}')
                want = {('LeftToRight', 'row'): z3.IntVal(65535), ('LeftToRight', 'column'): count - 1,
                        ('TopToBottom', 'row'): count - 1, ('TopToBottom', 'column'): z3.IntVal(65535)}[(flow, field)]
                if not z3.is_expr(c.args[2]):
                    bad.append(f'{flow}: max for {field} is {c.args[2]!r}')
                else:
                    _unsat([c.args[2] != want], bad, f'{flow}: {field} is validated against {c.args[2]}, documented maximum is {want}')
            if nxt[0].args[1] is not by_field['row'][0] and nxt[0].args[1] is not getattr(by_field['row'][0], 'result', None):
                bad.append(f'{flow}: next() receives {nxt[0].args[1]!r} as row')
            if nxt[0].args[2] is not by_field['column'][0] and nxt[0].args[2] is not getattr(by_field['column'][0], 'result', None):
                bad.append(f'{flow}: next() receives {nxt[0].args[2]!r} as column')
            if p.ret is not nxt[0] and p.ret is not getattr(nxt[0], 'result', None):
                bad.append(f'{flow}: result of next() is not what parse_next returns')
        if set(flows) != {'LeftToRight', 'TopToBottom'}:
            bad.append(f'flows seen: {sorted(flows)}')
    except M.MirError as e:
        bad = [f'MIR not interpretable: {e}']
        obs.append(_finish(ob, t0, bad, unknown=True))
    else:
        obs.append(_finish(ob, t0, bad, unknown=any(b.startswith('UNKNOWN') for b in bad)))

    # --- maybe_parse_layout_index ------------------------------------------------------------------
    ob = _ob('c12_mir_parse_layout_index', 'uigen::layout::maybe_parse_layout_index (+ closure)', 'all v, max (mathematical integers)',
             'Some(v) iff 0 <= v <= max; every rejected value pushes a diagnostic; the closure receives max_index and is applied to the attached value')
    t0 = time.time()
    bad = []
    try:
        fn = M.find_fn(fns, r'^maybe_parse_layout_index::\{closure#0\}$')
        it = M.Interp(fn, consts)
        v = it.leaf('_2.1', 'i32')
        mx = it.leaf('_1.2.*', 'i32')
        paths = [p for p in it.run() if p.end == 'return']
        in_range = z3.And(v >= 0, v <= mx)
        nsome = 0
        for p in paths:
            r = p.ret
            if isinstance(r, M.Adt) and r.path.endswith('Option::Some'):
                nsome += 1
                if not (z3.is_expr(r.fields[0])):
                    bad.append('Some(non-integer)')
                    continue
                _unsat(p.pc + [z3.Or(z3.Not(in_range), r.fields[0] != v)], bad, 'a value outside [0, max] (or another value) is let through')
            elif isinstance(r, M.Adt) and r.path.endswith('Option::None'):
                _unsat(p.pc + [in_range], bad, 'a value inside [0, max] is rejected')
                if not any(c.callee.endswith('Diagnostics::push') for c in p.calls):
                    bad.append('a rejected value is not diagnosed')
            else:
                bad.append(f'unexpected return {r!r}')
        # coverage of the case split: the three path conditions are exhaustive
        _unsat([z3.Not(z3.Or([z3.And(p.pc) for p in paths]))], bad, 'path conditions are not exhaustive')
        if nsome != 1:
            bad.append(f'{nsome} accepting paths')
        outer = M.find_fn(fns, r'^maybe_parse_layout_index$')
        ot = M.Interp(outer, consts)
        ops = [p for p in ot.run() if p.end == 'return']
        ok = False
        for p in ops:
            for c in p.calls:
                if c.callee.endswith('and_then') and len(c.args) == 2:
                    clo = c.args[1]
                    if isinstance(clo, M.Adt) and len(clo.fields) == 3 and isinstance(clo.fields[2], M.Ref) and ot.name_of(clo.fields[2].target) == '_3' \
                            and ot.name_of(c.args[0]) == '_2' and (p.ret is c or p.ret is getattr(c, 'result', None)):
                        ok = True
        if not ok:
            bad.append('outer function does not apply the closure (capturing max_index) to the attached value')
    except M.MirError as e:
        obs.append(_finish(ob, t0, [f'MIR not interpretable: {e}'], unknown=True))
    else:
        obs.append(_finish(ob, t0, bad, unknown=any(b.startswith('UNKNOWN') for b in bad)))
    return obs


# ------------------------------------------------------------------------------------------------ replay C12
ATTACHED = {'row_minimum_height': ('rowMinimumHeight', 'rowminimumheight', 'row'), 'row_stretch': ('rowStretch', 'rowstretch', 'row'),
            'column_minimum_width': ('columnMinimumWidth', 'columnminimumwidth', 'column'), 'column_stretch': ('columnStretch', 'columnstretch', 'column')}


def replay_grid_attribute(array, workdir):
    """CLI replay: a 3-column grid whose 4th child (cell row 1, column 0) carries the attached setting; the
    attribute must hold the value at the index of the child's row (row-wise) or column (column-wise).
    -> (reproduced, info)"""
    import os, subprocess
    from ..tv import driver as D
    qml_name, attr, axis = ATTACHED[array]
    text = ('import qmluic.QtWidgets\nQWidget {\n  QGridLayout {\n    columns: 3\n    QLabel {}\n    QLabel {}\n    QLabel {}\n'
            f'    QLabel {{ QLayout.{qml_name}: 7 }}\n  }}\n}}\n')
    os.makedirs(workdir, exist_ok=True)
    r = D.run_cli(C.build_native(), workdir, text, 'Grid')
    if r.rc != 0 or r.ui is None:
        return None, {'error': 'grid document rejected: ' + r.stderr[-400:]}
    m = re.search(attr + r'="([^"]*)"', r.ui)
    actual = m.group(1) if m else None
    expected = '0,7' if axis == 'row' else '7'
    info = {'document': text, 'attribute': attr, 'expected': expected, 'actual': actual, 'cell': '(row 1, column 0)'}
    with open(os.path.join(workdir, 'README.txt'), 'w') as f:
        f.write(f'qmluic generate-ui Grid.qml; {attr} expected "{expected}" (child in row 1, column 0), got "{actual}"\n')
    return actual != expected, info


def _grid(body, head='columns: 2'):
    return f'import qmluic.QtWidgets\nQWidget {{\n  QGridLayout {{\n    {head}\n{body}  }}\n}}\n'


LAYOUT_PROBES = [
    # (name, document, expectation)   expectation: ('reject', fragment) | ('cells', [(row, col)...]) | ('attr', name, value)
    ('ltr: column beyond columns-1 is diagnosed', _grid('    QLabel { QLayout.column: 2 }\n'), ('reject', 'column is too large')),
    ('ltr: column = columns-1 accepted', _grid('    QLabel { QLayout.column: 1 }\n    QLabel {}\n'), ('cells', [(0, 1), (1, 0)])),
    ('ltr: row up to 65535 accepted', _grid('    QLabel { QLayout.row: 5 }\n    QLabel {}\n'), ('cells', [(5, 0), (5, 1)])),
    ('ltr: row 65536 diagnosed', _grid('    QLabel { QLayout.row: 65536 }\n'), ('reject', 'row is too large')),
    ('ltr: negative row diagnosed', _grid('    QLabel { QLayout.row: -1 }\n'), ('reject', 'negative row')),
    ('ltr: negative column diagnosed', _grid('    QLabel { QLayout.column: -1 }\n'), ('reject', 'negative column')),
    ('ltr: explicit row and column are not swapped', _grid('    QLabel { QLayout.row: 1; QLayout.column: 0 }\n'), ('cells', [(1, 0)])),
    ('ttb: row beyond rows-1 is diagnosed', _grid('    QLabel { QLayout.row: 2 }\n', 'flow: QGridLayout.TopToBottom; rows: 2'), ('reject', 'row is too large')),
    ('ttb: column up to 65535 accepted', _grid('    QLabel { QLayout.column: 5 }\n    QLabel {}\n', 'flow: QGridLayout.TopToBottom; rows: 2'), ('cells', [(0, 5), (1, 5)])),
    ('ttb: column 65536 diagnosed', _grid('    QLabel { QLayout.column: 65536 }\n', 'flow: QGridLayout.TopToBottom; rows: 2'), ('reject', 'column is too large')),
    ('form: cells', 'import qmluic.QtWidgets\nQWidget {\n  QFormLayout {\n    QLabel {}\n    QLabel {}\n    QLabel { QLayout.row: 3; QLayout.column: 1 }\n  }\n}\n', ('cells', [(0, 0), (0, 1), (3, 1)])),
    ('vbox: stretch at position', 'import qmluic.QtWidgets\nQWidget {\n  QVBoxLayout {\n    QLabel {}\n    QLabel { QLayout.rowStretch: 3 }\n  }\n}\n', ('attr_at', 'stretch', 1, '3', 2)),
    ('hbox: stretch at position', 'import qmluic.QtWidgets\nQWidget {\n  QHBoxLayout {\n    QLabel {}\n    QLabel {}\n    QLabel { QLayout.columnStretch: 4 }\n  }\n}\n', ('attr_at', 'stretch', 2, '4', 3)),
]


def replay_layout_probes(workdir):
    """CLI replay for refutations in parse_next / index range check / box and form closures: fixed probe documents
    around the documented boundaries.  -> (reproduced, info)"""
    import os
    from ..tv import driver as D
    os.makedirs(workdir, exist_ok=True)
    q = C.build_native()
    failed = []
    for i, (name, text, exp) in enumerate(LAYOUT_PROBES):
        r = D.run_cli(q, workdir, text, f'Probe{i}')
        if exp[0] == 'reject':
            ok = r.rc != 0 and exp[1] in r.stderr
            got = f'rc={r.rc} ' + r.stderr.strip().split('\n')[0][:120] if r.stderr.strip() else f'rc={r.rc}'
        elif r.rc != 0 or r.ui is None:
            ok, got = False, 'rejected: ' + r.stderr.strip()[:200]
        elif exp[0] == 'cells':
            cells = [(int(a), int(b)) for a, b in re.findall(r'<item[^>]*\brow="(\d+)"[^>]*\bcolumn="(\d+)"', r.ui)]
            if not cells:
                cells = [(int(b), int(a)) for a, b in re.findall(r'<item[^>]*\bcolumn="(\d+)"[^>]*\brow="(\d+)"', r.ui)]
            ok, got = cells == exp[1], cells
        else:
            # the value sits at the child's position (what unspecified entries default to is not C12's subject)
            m = re.search(r'\b' + exp[1] + r'="([^"]*)"', r.ui)
            got = m.group(1) if m else None
            parts = got.split(',') if got else []
            ok = len(parts) == exp[4] and parts[exp[2]] == exp[3]
        if not ok:
            failed.append({'probe': name, 'document': text, 'expected': exp, 'actual': got})
    with open(os.path.join(workdir, 'README.txt'), 'w') as f:
        f.write('qmluic generate-ui Probe<i>.qml for each probe; failed: %s\n' % failed)
    return bool(failed), {'failed_probes': failed}
