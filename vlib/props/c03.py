"""C03 Values embedded in the .ui equal the value of their source expression.
Engine A on the value-producing kernels: constant folding (value and rejection side), radix selection,
escape decoding, integer -> XML number.  Engine C (MIR) adds operand order of / and % at full width."""
from .. import common as C, kani
from . import ceval_specs as CE

LEVEL = 'proof'
A = 'qmlast::astutil::verif_kani::'
U = 'uigen::expr::verif_kani::'
Q, T = ('quick', 'thorough'), ('thorough',)
SPECS = CE.FOLD + [
    kani.Spec(A + 'c03_strip_radix_prefix_len_1_to_4', 'qmlast::astutil::strip_radix_prefix', 'every ASCII string of length 1..4',
              '0b/0B->2, 0o/0O->8, 0x/0X->16, legacy 0[0-7]+ ->8, otherwise none; tail = input minus prefix'),
    kani.Spec(A + 'c03_unescape_char_le_6_bytes', 'qmlast::astutil::unescape_char, char_from_str_radix', 'every UTF-8 string of length 0..6',
              'ten single-character escapes per ECMAScript; \\xHH, \\uHHHH, \\u{H}, \\u{HH} give the code point; surrogates and everything else rejected; no panic on any char boundary'),
    kani.Spec(A + 'c03_unescape_char_braced', 'qmlast::astutil::unescape_char, char_from_str_radix', '\\u{...} with 1..7 arbitrary ASCII bytes inside',
              'code point iff all hex digits and a Unicode scalar value (<= 0x10FFFF, no surrogate)', T, timeout=1500),
    kani.Spec(A + 'c03_astutil_witness_reachable', 'qmlast::astutil::strip_radix_prefix', '3 ASCII bytes', 'vacuity witness', kind='witness'),
    kani.Spec(U + 'c03_integer_to_number_exact_53bit', 'uigen::expr::EvaluatedValue::unwrap_into_simple_value', 'all |v| <= 2^53',
              'Integer(v) becomes Number(d) with d == v exactly'),
    kani.Spec(U + 'c03_integer_to_number_exact', 'uigen::expr::EvaluatedValue::unwrap_into_simple_value', 'all i64',
              'Integer(v) becomes Number(d) with d == v exactly', finding_site='uigen::expr::EvaluatedValue::unwrap_into_simple_value/Integer'),
    kani.Spec(U + 'c03_bool_float_passthrough', 'uigen::expr::EvaluatedValue::unwrap_into_simple_value', 'all bool, all f64', 'Bool and Float pass through bit-for-bit'),
]
FRAGS = {k: kani.FRAGMENTS[k] for k in ('ceval.rs', 'astutil.rs', 'uiexpr.rs')}


def run(res, args):
    import threading
    from . import c03_const
    err = []

    def const_part():
        try:
            c03_const.run(res)
        except Exception as e:
            err.append(e)
    th = threading.Thread(target=const_part)
    th.start()
    try:
        kani.check_property(res, 'c03', FRAGS, SPECS)
    finally:
        th.join()
    if err:
        raise err[0]
    from . import mir_obligations as O
    fns, consts = O.load()

    def replay(ob, d):
        rep, info = O.replay_ceval(d)
        return rep, info, {'site': 'eval_binary_arith_expression dispatch', 'probe': info['failed_probes'][0]['expression'] if info['failed_probes'] else None}
    O.merge(res, O.ceval_divrem(fns, consts), res.coverage, replay, 'ceval')

    def replay_lit(ob, d):
        rep, info = O.replay_literals(d)
        return rep, info, {'site': 'number literal decoding', 'probe': info['failed_probes'][0]['literal'] if info['failed_probes'] else None}
    O.merge(res, O.c03_literals(fns, consts), res.coverage, replay_lit, 'literals')
    res.assumptions += [
        "escape decoding: a '+' where the tokenizer only ever produces a hex digit is outside the oracle (std's from_str_radix accepts it; tree-sitter's escape_sequence token cannot contain it)",
        'ordering comparisons of two bool constants are outside the Kani oracle (CBMC orders 1-bit values as signed; caught by native replay in the design phase)',
        'Outside the claim: decimal/float literal text (str::parse::<f64>), digit accumulation (u64::from_str_radix), the _ separator fallback (allocates: 21-30 GB in CBMC), tir::interpret::evaluate_code, XML text writer, enum/flag/string-list/object-ref conversion',
    ]
