"""C17 Type lookups agree with the class graph and always terminate -- engine C on the MIR of typemap/class.rs.

The MIR of `Class::{is_derived_from, is_derived_from_pedantic, common_base_class, find_map_self_and_base_classes,
get_property, get_public_method, get_type, get_enum_by_variant, base_classes}`, of all their closures, and of the two
iterators `BaseClasses::{new, next}` and `SuperClasses::next` is executed symbolically (callees inlined, loops unrolled
by path forking, infeasible branches pruned by z3) over a SYMBOLIC CLASS GRAPH: N classes, each with up to S public
super-class references, each reference pointing to any class (cycles, self-loops, diamonds, multiple inheritance) or
dangling.  std containers and combinators are models (VecDeque = sequence, HashSet<Class> = SMT array, slice::Iter =
cursor, Option/Result combinators structurally, Iterator::find_map = loop over the inlined next() and closure).
z3 then compares every outcome with reachability in the graph (boolean matrix closure)."""
import itertools, json, os, re, sys, time
import z3
from .. import common as C, mir as M
from . import mir_obligations as O

sys.setrecursionlimit(100000)
LEVEL = "proof"

NONE = lambda: M.Adt('Option::None', [])
SOME = lambda x: M.Adt('Option::Some', [x])
OK = lambda x: M.Adt('Result::Ok', [x])
ERR = lambda: M.Adt('Result::Err', [M.Opaque('TypeMapError')])
TRAITS = {'Iterator', 'IntoIterator', 'PartialEq', 'Clone', 'FnMut', 'FnOnce', 'Fn', 'From', 'Default', 'TypeSpace'}
INLINE_LAST = {'base_classes', 'find_map_self_and_base_classes', 'is_derived_from', 'is_derived_from_pedantic', 'common_base_class',
               'get_property', 'get_public_method', 'get_type', 'get_enum_by_variant', 'next', 'new'}
NO_SUPER = {'get_property_no_super', 'get_public_method_no_super', 'get_type_no_super', 'get_enum_by_variant_no_super'}


class Handle:
    def __init__(self, kind, name):
        self.kind, self.name = kind, name

    def __repr__(self):
        return f'<{self.kind} {self.name}>'


class Diverges(Exception):
    pass


def deref(v):
    while isinstance(v, M.Ref):
        v = v.target
    return v


def variant(v):
    v = deref(v)
    return v.path.split('::')[-1] if isinstance(v, M.Adt) else None


class Engine:
    def __init__(self, fns, consts, N, S):
        self.fns, self.consts, self.N, self.S = fns, consts, N, S
        self.count = [z3.Int(f'count{c}') for c in range(N)]
        self.target = [[z3.Int(f'super{c}_{s}') for s in range(S)] for c in range(N)]
        self.has = [z3.Bool(f'declares{c}') for c in range(N)]
        self.seq = 0
        self.encoded, self.models_used = set(), set()
        self.bound = N * S + N + 3          # iterations of any modelled loop; more means non-termination
        self.diverged = []
        self.panics = []
        self.cfn_cache = {}
        self.space_has = [z3.Bool(f'space{k}_declares') for k in range(self.L + 1)]

    # ---- graph ---------------------------------------------------------------------------------------
    def wf(self):
        out = []
        for c in range(self.N):
            out += [self.count[c] >= 0, self.count[c] <= self.S]
            for s in range(self.S):
                out += [self.target[c][s] >= -1, self.target[c][s] < self.N]
        return out

    @staticmethod
    def sel(lst, idx):
        v = lst[-1]
        for k in range(len(lst) - 2, -1, -1):
            v = z3.If(idx == k, lst[k], v)
        return v

    def tgt(self, cls, pos):
        rows = [self.sel(self.target[c], pos) for c in range(self.N)]
        return self.sel(rows, cls)

    def edge(self, i, j):
        return z3.Or([z3.And(s < self.count[i], self.target[i][s] == j) for s in range(self.S)])

    def dangling(self, i):
        return z3.Or([z3.And(s < self.count[i], self.target[i][s] == -1) for s in range(self.S)])

    def closure(self):
        """R[i][j]: j reachable from i in >= 0 steps (python matrix of z3 Bools)"""
        N = self.N
        R = [[z3.BoolVal(i == j) for j in range(N)] for i in range(N)]
        E = [[self.edge(i, j) for j in range(N)] for i in range(N)]
        for _ in range(N):
            R = [[z3.Or(R[i][j], z3.Or([z3.And(R[i][k], E[k][j]) for k in range(N)])) for j in range(N)] for i in range(N)]
        return R

    def reach(self, R, a, b):
        """R* for symbolic class indices a, b"""
        return z3.Or([z3.And(a == i, b == j, R[i][j]) for i in range(self.N) for j in range(self.N)])

    def fresh(self, base):
        self.seq += 1
        return f'{base}#{self.seq}'

    def _next(self):
        self.seq += 1
        return self.seq

    # ---- interpreter plumbing ----------------------------------------------------------------------------
    def interp(self, fn, args):
        it = M.Interp(fn, self.consts, arg_values=args, call_model=self.call)
        it._next = self._next
        it.max_depth = 4000
        self.encoded.add(fn.name)
        orig_place = it.place

        def struct_of(text, p):
            m = re.fullmatch(r'\(\(\*(_\d+)\)\.(\d+): .*\)', text.strip())
            if m:
                v = deref(p.env.get(m.group(1), args.get(m.group(1))))
                if isinstance(v, Handle) and v.kind == 'struct':
                    return v, int(m.group(2))
            return None, None

        def place(text, p):
            h, k = struct_of(text, p)
            if h is not None:
                return p.heap[h.name][k]
            return orig_place(text, p)
        it.place = place

        def store(place_text, value, it_, p):
            h, k = struct_of(place_text, p)
            if h is None:
                raise M.MirError('store: ' + place_text)
            f = list(p.heap[h.name])
            f[k] = value
            p.heap[h.name] = tuple(f)
        it.store_model = store
        return it

    def call_fn(self, fn, args, p):
        """-> [(extra pcs, heap, value)] for the returning paths of fn started in the state of p"""
        av = {f'_{i + 1}': a for i, a in enumerate(args)}
        it = self.interp(fn, av)
        q0 = M.Path()
        q0.pc, q0.heap = list(p.pc), dict(p.heap)
        outs = []
        try:
            paths = it.run(max_paths=20000, path=q0)
        except M.MirError as e:
            if 'loop-free' in str(e):
                raise Diverges(f'{fn.name}: unrolling bound exceeded')
            raise
        for q in paths:
            if q.end == 'return':
                outs.append((q.pc[len(p.pc):], q.heap, q.ret if q.ret is not None else M.Tup([])))
            elif q.end in ('unreachable', 'diverge', 'panic'):
                self.panics.append((fn.name, q.end, list(q.pc)))
        return outs

    def resolve(self, callee):
        last = callee.split('::')[-1]
        if last not in INLINE_LAST:
            return None
        head = callee[:callee.rfind('::')]
        types = [t for t in re.findall(r'[A-Z]\w+', head) if t not in TRAITS]
        if not types or types[0] not in ('Class', 'BaseClasses', 'SuperClasses'):
            return None
        ty = types[0]
        key = (ty, last)
        if key in self.cfn_cache:
            return self.cfn_cache[key]
        cands = [f for n, f in self.fns.items() if n.split('::')[-1] == last and n.startswith('class::<impl at src/typemap/class.rs')]

        def mentions(f):
            first = f.param_types.get('_1', '')
            ret = f.header.split(' -> ')[-1]
            if last == 'new':
                return re.match(r'(?:class::)?' + ty + r'<', ret) is not None
            return re.search(r'(?:&(?:mut )?)?(?:class::|typemap::class::)?' + ty + r'<', first) is not None
        cands = [f for f in cands if mentions(f)]
        if len(cands) != 1:
            raise M.MirError(f'{len(cands)} MIR bodies for {callee}')
        self.cfn_cache[key] = cands[0]
        return cands[0]

    def closure_fn(self, v):
        v = deref(v)
        nm = v.path if isinstance(v, M.Adt) else getattr(v, 'name', '')
        loc = re.search(r'closure@([^}]*)', nm or '')
        if not loc:
            raise M.MirError(f'not a closure: {v!r}')
        key = ('closure', loc.group(1))
        if key not in self.cfn_cache:
            cands = [f for f in self.fns.values() if ('closure@' + loc.group(1) + '}') in f.param_types.get('_1', '')]
            if len(cands) != 1:
                raise M.MirError(f'{len(cands)} bodies for closure {loc.group(1)}')
            self.cfn_cache[key] = cands[0]
        return self.cfn_cache[key], v

    def invoke(self, clo, args, p):
        cfn, env = self.closure_fn(clo)
        first = cfn.param_types.get('_1', '')
        return self.call_fn(cfn, [M.Ref(env) if first.startswith('&') else env] + list(args), p)

    @staticmethod
    def state(p, pcs, heap):
        q = M.Path()
        q.pc, q.heap = list(p.pc) + list(pcs), dict(heap)
        return q

    # ---- models --------------------------------------------------------------------------------------------
    def call(self, c, it, p):
        name, a = c.callee, c.args
        last = name.split('::')[-1]
        used = self.models_used.add
        fn = self.resolve(name)
        if fn is not None:
            args = list(a)
            # `<&mut SuperClasses as Iterator>::next(&mut &mut sc)`: the body expects &mut SuperClasses
            if last == 'next':
                args = [M.Ref(deref(args[0]))]
            return M.Fork(self.call_fn(fn, args, p))
        if name.endswith('LexicalAncestorSpaces::new'):
            fnew = self.find_core('new', ret='LexicalAncestorSpaces')
            outs = []
            for pcs, heap, ret in self.call_fn(fnew, list(a), p):
                h = Handle('struct', self.fresh('lexical'))
                heap = dict(heap)
                heap[h.name] = tuple(ret.fields)
                outs.append((pcs, heap, h))
            return M.Fork(outs)
        if last == 'next' and isinstance(deref(a[0]), Handle) and deref(a[0]).kind == 'struct':
            return M.Fork(self.call_fn(self.find_core('next', first='LexicalAncestorSpaces'), [M.Ref(deref(a[0]))], p))
        if last == 'find_map' and 'LexicalAncestorSpaces' in name:
            used('Iterator::find_map (std default method): loop over the inlined next() and closure')
            return M.Fork(self.find_map(a[0], a[1], p, self.find_core('next', first='LexicalAncestorSpaces')))
        if last == 'lexical_parent':
            used('lexical_parent: the chain class -> enclosing namespaces, L levels deep')
            i = deref(a[0]).fields[0]
            k = i.as_long()
            return SOME(M.Ref(M.Adt('Space', [z3.IntVal(k + 1)]))) if k < self.L else NONE()
        if last == 'get_type' and isinstance(deref(a[0]), M.Adt) and deref(a[0]).path == 'Space':
            used('get_type of one type space: declared there or not (one symbolic bit per space)')
            k = deref(a[0]).fields[0].as_long()
            return M.Fork([([self.space_has[k]], None, SOME(OK(M.Adt('Type', [z3.IntVal(k)])))), ([z3.Not(self.space_has[k])], None, NONE())])
        if last == 'or_else' and variant(a[0]) in ('Some', 'None'):
            if variant(a[0]) == 'Some':
                return deref(a[0])
            return M.Fork(self.invoke(a[1], [], p))
        if last in NO_SUPER:
            used('member tables: class c declares the queried member iff declares[c] (HashMap / MethodDataTable / inner type map lookups are not encoded)')
            idx = deref(a[0]).fields[0]
            h = self.sel(self.has, idx)
            return M.Fork([([h], None, SOME(OK(M.Adt('Member', [idx])))), ([z3.Not(h)], None, NONE())])
        if name.endswith('Class<\'_> as PartialEq>::eq') or re.search(r'Class(<[^>]*>)? as PartialEq>::eq$', name):
            used('Class == Class: identity of the class (derived PartialEq over data pointer and parent space)')
            return deref(a[0]).fields[0] == deref(a[1]).fields[0]
        if re.search(r'Class(<[^>]*>)? as Clone>::clone$', name):
            return deref(a[0])
        if name.endswith('Class::public_super_classes'):
            used('Class::public_super_classes: a cursor (class, 0) over the public_super_class_names of that class')
            h = Handle('supers', self.fresh('supers'))
            p.heap[h.name] = (deref(a[0]).fields[0], z3.IntVal(0))
            return M.Adt('SuperClasses', [h, M.Opaque('parent_space')])
        if 'VecDeque' in name:
            used('VecDeque<SuperClasses>: a finite sequence (from / front_mut / push_back / pop_front)')
            if last == 'from':
                h = Handle('deque', self.fresh('deque'))
                x = deref(a[0])
                p.heap[h.name] = tuple(x.items) if isinstance(x, M.Tup) else (x,)
                return h
            h = deref(a[0])
            if last == 'front_mut' or last == 'front':
                q = p.heap[h.name]
                return SOME(M.Ref(q[0])) if q else NONE()
            if last == 'push_back':
                p.heap[h.name] = p.heap[h.name] + (deref(a[1]),)
                return M.Tup([])
            if last == 'pop_front':
                q = p.heap[h.name]
                p.heap[h.name] = q[1:]
                return SOME(q[0]) if q else NONE()
            raise M.MirError('unmodelled ' + name)
        if 'HashSet' in name:
            used('HashSet<Class>: SMT array class -> Bool (new / insert returning "was absent")')
            if last in ('new', 'default'):
                h = Handle('set', self.fresh('set'))
                p.heap[h.name] = z3.K(z3.IntSort(), z3.BoolVal(False))
                return h
            if last == 'insert':
                h = deref(a[0])
                idx = deref(a[1]).fields[0]
                arr = p.heap[h.name]
                present = z3.Select(arr, idx)
                p.heap[h.name] = z3.Store(arr, idx, True)
                return z3.Not(present)
            raise M.MirError('unmodelled ' + name)
        if last in ('by_ref', 'into_iter') and isinstance(deref(a[0]), M.Adt):
            return a[0]
        if name.endswith('Iter<\'_, std::string::String> as Iterator>::next') or (last == 'next' and isinstance(deref(a[0]), Handle) and deref(a[0]).kind == 'supers'):
            used('slice::Iter<String>::next: the cursor yields the next super-class reference of its class, if any')
            h = deref(a[0])
            cls, pos = p.heap[h.name]
            cnt = self.sel(self.count, cls)
            h1 = dict(p.heap)
            h1[h.name] = (cls, pos + 1)
            return M.Fork([([pos < cnt], h1, SOME(M.Adt('NameRef', [cls, pos]))), ([pos >= cnt], None, NONE())])
        if last in ('deref', 'as_str', 'as_ref', 'borrow') and isinstance(deref(a[0]), M.Adt) and deref(a[0]).path == 'NameRef':
            return deref(a[0])
        if last == 'resolve_class_scoped':
            used('resolve_class_scoped: reference s of class c resolves to class super[c][s], or fails when dangling (namespace lookup not encoded)')
            n = deref(a[1])
            t = self.tgt(n.fields[0], n.fields[1])
            return M.Fork([([t >= 0], None, OK(M.Adt('Class', [t]))), ([t < 0], None, ERR())])
        # ---- closures and combinators
        if last in ('call_mut', 'call_once', 'call') and ('FnMut' in name or 'FnOnce' in name or 'Fn<' in name):
            args = deref(a[1]).items if isinstance(deref(a[1]), M.Tup) else [a[1]]
            return M.Fork(self.invoke(a[0], args, p))
        if last == 'find_map' and 'BaseClasses' in name:
            used('Iterator::find_map (std default method): loop { next()? ; if let Some(x) = f(item) { return Some(x) } } over the inlined next() and closure')
            return M.Fork(self.find_map(a[0], a[1], p))
        v0 = variant(a[0]) if a else None
        if re.search(r'Option(<.*>)?::map$|Option::<.*>::map$', name) or (last == 'map' and v0 in ('Some', 'None')):
            if v0 == 'None':
                return NONE()
            return M.Fork([(pc, h, SOME(r)) for pc, h, r in self.invoke(a[1], [deref(a[0]).fields[0]], p)])
        if last == 'map' and v0 in ('Ok', 'Err'):
            if v0 == 'Err':
                return deref(a[0])
            return M.Fork([(pc, h, OK(r)) for pc, h, r in self.invoke(a[1], [deref(a[0]).fields[0]], p)])
        if last == 'and_then' and v0 in ('Ok', 'Some'):
            return M.Fork(self.invoke(a[1], [deref(a[0]).fields[0]], p))
        if last == 'and_then' and v0 in ('Err', 'None'):
            return deref(a[0])
        if last == 'transpose':
            x = deref(a[0])
            if v0 == 'None':
                return OK(NONE())
            if v0 == 'Some':                    # Option<Result<T,E>> -> Result<Option<T>,E>
                r = deref(x.fields[0])
                return OK(SOME(r.fields[0])) if variant(r) == 'Ok' else r
            if v0 == 'Err':                     # Result<Option<T>,E> -> Option<Result<T,E>>
                return SOME(x)
            if v0 == 'Ok':
                o = deref(x.fields[0])
                return SOME(OK(o.fields[0])) if variant(o) == 'Some' else NONE()
        if last == 'ok' and v0 in ('Ok', 'Err'):
            return SOME(deref(a[0]).fields[0]) if v0 == 'Ok' else NONE()
        if last in ('is_some', 'is_none') and v0 in ('Some', 'None'):
            return z3.BoolVal((v0 == 'Some') == (last == 'is_some'))
        if last == 'then_some':
            b = a[0]
            return M.Fork([([b], None, SOME(a[1])), ([z3.Not(b)], None, NONE())])
        return None

    L = 2

    def find_core(self, last, ret=None, first=None):
        key = ('core', last, ret, first)
        if key not in self.cfn_cache:
            cands = [f for n, f in self.fns.items() if n.split('::')[-1] == last and 'src/typemap/core.rs' in n
                     and (ret is None or ret in f.header.split(' -> ')[-1]) and (first is None or first in f.param_types.get('_1', ''))]
            if len(cands) != 1:
                raise M.MirError(f'{len(cands)} MIR bodies for core::{last}')
            self.cfn_cache[key] = cands[0]
        return self.cfn_cache[key]

    def find_map(self, it_ref, clo, p, next_fn=None):
        next_fn = next_fn or self.resolve('<BaseClasses as Iterator>::next')
        results = []
        work = [([], p.heap, 0)]
        while work:
            pcs, heap, k = work.pop()
            if k > self.bound:
                self.diverged.append(list(p.pc) + list(pcs))
                continue
            st = self.state(p, pcs, heap)
            for pc1, h1, item in self.call_fn(next_fn, [M.Ref(deref(it_ref))], st):
                if variant(item) == 'None':
                    results.append((pcs + pc1, h1, NONE()))
                    continue
                st2 = self.state(p, pcs + pc1, h1)
                for pc2, h2, r in self.invoke(clo, [deref(item).fields[0]], st2):
                    if variant(r) == 'Some':
                        results.append((pcs + pc1 + pc2, h2, r))
                    else:
                        work.append((pcs + pc1 + pc2, h2, k + 1))
        return results

    # ---- entry points --------------------------------------------------------------------------------------
    def run(self, fn_last, args, pre):
        fn = self.resolve('class::Class::' + fn_last)
        p = M.Path()
        p.pc, p.heap = list(pre), {}
        return self.call_fn(fn, args, p)


def _cex(eng, model):
    ev = lambda t: model.eval(t, model_completion=True).as_long()
    g = []
    for c in range(eng.N):
        n = ev(eng.count[c])
        g.append([ev(eng.target[c][s]) for s in range(n)])
    return {'supers': g, 'declares': [bool(z3.is_true(model.eval(h, model_completion=True))) for h in eng.has]}


def obligations(fns, consts, N, S, only=None):
    bound = (f'every class graph with {N} classes, each with 0..{S} public super-class references, each reference pointing to any of the {N} classes (cycles, self-references, diamonds, '
             f'multiple inheritance) or dangling; symbolic start class(es); member declared by an arbitrary subset of the classes; loops unrolled to {N * S + N + 3} iterations (more = reported as non-termination)')
    fnames = 'typemap::class::Class::{NAME} + BaseClasses::{{new,next}} + SuperClasses::next + all their closures (inlined MIR)'
    obs = []
    A, B = z3.Int('a'), z3.Int('b')

    def mk(name, fn_last, covers):
        ob = O._ob(f'c17_mir_{name}[N={N},S={S}]', fnames.replace('{NAME}', fn_last), bound, covers)
        return ob

    def run_one(ob, fn_last, args, pre_extra, judge):
        if only is not None and fn_last not in only:
            return
        t0 = time.time()
        eng = Engine(fns, consts, N, S)
        bad = []
        try:
            pre = eng.wf() + [A >= 0, A < N, B >= 0, B < N] + pre_extra(eng)
            outs = eng.run(fn_last, args, pre)
            R = eng.closure()
            nodang = z3.And([z3.Implies(eng.reach(R, A, z3.IntVal(i)), z3.Not(eng.dangling(i))) for i in range(N)])
            nodang_b = z3.And([z3.Implies(eng.reach(R, B, z3.IntVal(i)), z3.Not(eng.dangling(i))) for i in range(N)])
            cover = []
            for pcs, heap, val in outs:
                pc = pre + pcs
                cover.append(z3.And(pcs) if pcs else z3.BoolVal(True))
                for cond, msg in judge(eng, R, val, nodang, nodang_b):
                    r = M.check(pc + [cond], 60000)
                    if r == 'unknown':
                        bad.append('UNKNOWN: ' + msg)
                    elif r != 'unsat':
                        cx = dict(_cex(eng, r[1]), a=r[1].eval(A, model_completion=True).as_long(), b=r[1].eval(B, model_completion=True).as_long(), result=repr(val)[:80])
                        ob.setdefault('counterexamples', []).append(cx)
                        bad.append(f'{msg}: {cx}')
            for pcd in eng.diverged:
                r = M.check(pcd, 60000)
                if r != 'unsat':
                    cx = _cex(eng, r[1]) if isinstance(r, tuple) else {}
                    ob.setdefault('counterexamples', []).append(dict(cx, nontermination=True))
                    bad.append(f'the lookup does not terminate within the bound: {cx}')
            for fname, end, pcp in eng.panics:
                r = M.check(pcp, 60000)
                if r != 'unsat':
                    bad.append(f'a path of {fname} ends in {end}')
            # every graph / start has an outcome (no path lost by the interpreter)
            # forks are complementary by construction (and non-returning paths are reported above); this query is a
            # cross-check of the interpreter, not part of the claim: an undecided one is recorded, not counted
            r = M.check(pre + [z3.Not(z3.Or(cover))] if cover else pre, 20000)
            if r == 'unknown':
                ob['coverage_cross_check'] = 'undecided by z3 within 20 s'
            elif r != 'unsat':
                bad.append(f'some graph has no outcome: {_cex(eng, r[1])}')
            ob['outcomes'] = len(outs)
        except Diverges as e:
            bad.append(f'the lookup does not terminate within the unrolling bound ({e})')
        except M.MirError as e:
            O._finish(ob, t0, ['MIR: ' + str(e)], unknown=True)
            ob['detail'] = 'MIR: ' + str(e)
            obs.append(ob)
            return
        O._finish(ob, t0, bad, unknown=bool(bad) and all(b.startswith('UNKNOWN') for b in bad))
        ob['functions_inlined'] = sorted(eng.encoded)
        ob['library_models'] = sorted(eng.models_used)
        obs.append(ob)

    cls = lambda x: M.Ref(M.Adt('Class', [x]))

    # ---- is_derived_from
    def judge_derived(eng, R, val, nodang, nodang_b):
        reach = eng.reach(R, A, B)
        return [(z3.And(val, z3.Not(reach)), 'is_derived_from is true although the base is not reachable'),
                (z3.And(z3.Not(val), reach, nodang), 'is_derived_from is false although the base is reachable (no dangling reference involved)')]
    run_one(mk('is_derived_from', 'is_derived_from', 'terminates; true only if b is a (reflexive-transitive) public base of a; and exactly then when no reference reachable from a is dangling'),
            'is_derived_from', [cls(A), cls(B)], lambda e: [], judge_derived)

    # ---- member lookup through self and base classes (get_property; the other three share find_map_self_and_base_classes)
    def judge_member(eng, R, val, nodang, nodang_b):
        v = variant(val)
        any_decl = z3.Or([z3.And(eng.reach(R, A, z3.IntVal(i)), eng.has[i]) for i in range(eng.N)])
        if v == 'None':
            return [(any_decl, 'the member is not found although the class or a public ancestor declares it')]
        r = deref(val).fields[0]
        if variant(r) == 'Err':
            return [(nodang, 'an error is returned although no reachable reference is dangling')]
        d = deref(r).fields[0].fields[0]
        return [(z3.Not(z3.And(eng.reach(R, A, d), eng.sel(eng.has, d))), 'the member is taken from a class that is not an ancestor-or-self declaring it'),
                (z3.And(eng.sel(eng.has, A), d != A), "the class's own declaration does not take precedence")]
    for fn_last in ('get_property', 'get_public_method', 'get_type', 'get_enum_by_variant'):
        run_one(mk(fn_last, fn_last, 'terminates; found exactly when the class or a public ancestor declares the member, own declaration first; an error only when a reachable reference is dangling'),
                fn_last, [cls(A), M.Opaque('member_name')], lambda e: [], judge_member)

    # ---- common_base_class
    def judge_common(eng, R, val, nodang, nodang_b):
        v = variant(val)
        common = z3.Or([z3.And(eng.reach(R, A, z3.IntVal(i)), eng.reach(R, B, z3.IntVal(i))) for i in range(eng.N)])
        if v == 'None':
            return [(z3.And(common, nodang, nodang_b), 'no common base is found although one exists (no dangling reference involved)')]
        r = deref(val).fields[0]
        if variant(r) == 'Err':
            return [(z3.And(nodang, nodang_b), 'an error is returned although no reachable reference is dangling')]
        d = deref(deref(r).fields[0]).fields[0]
        return [(z3.Not(z3.And(eng.reach(R, A, d), eng.reach(R, B, d))), 'the common base is not an ancestor-or-self of both classes')]
    run_one(mk('common_base_class', 'common_base_class', 'terminates; the result is an ancestor-or-self of both classes; none only if there is none (or a dangling reference is involved)'),
            'common_base_class', [cls(A), cls(B)], lambda e: [], judge_common)
    # ---- resolve_type: own scope first, then the lexical ancestors from the inside out
    if (N, S) == (2, 2):
        ob = O._ob('c17_mir_resolve_type[L=2]', 'typemap::core::TypeSpace::resolve_type + its closures + LexicalAncestorSpaces::{new,next} (inlined MIR)',
                   'a type space with two enclosing spaces (class -> namespace -> outer namespace); the name is declared by an arbitrary subset of the three spaces',
                   'the type is taken from the innermost space that declares the name: the space itself first, then its lexical ancestors from the inside out; none only if no space declares it')
        t0 = time.time()
        eng = Engine(fns, consts, N, S)
        bad = []
        try:
            fn = M.find_fn(fns, r'TypeSpace::resolve_type$')
            p = M.Path()
            p.pc, p.heap = [], {}
            outs = eng.call_fn(fn, [M.Ref(M.Adt('Space', [z3.IntVal(0)])), M.Opaque('name')], p)
            cover = []
            for pcs, heap, val in outs:
                cover.append(z3.And(pcs) if pcs else z3.BoolVal(True))
                h = eng.space_has
                if variant(val) == 'None':
                    cond, msg = z3.Or(h), 'the name is not found although a space declares it'
                else:
                    k = deref(deref(val).fields[0]).fields[0].fields[0].as_long()
                    cond, msg = z3.Not(z3.And([h[k]] + [z3.Not(h[j]) for j in range(k)])), f'the type is taken from space {k} although an inner space declares the name (or space {k} does not)'
                r = M.check(pcs + [cond], 60000)
                if r == 'unknown':
                    bad.append('UNKNOWN: ' + msg)
                elif r != 'unsat':
                    cx = {'declares': [bool(z3.is_true(r[1].eval(x, model_completion=True))) for x in h], 'result': repr(val)[:60]}
                    ob.setdefault('counterexamples', []).append(cx)
                    bad.append(f'{msg}: {cx}')
            r = M.check([z3.Not(z3.Or(cover))] if cover else [], 60000)
            if r != 'unsat':
                bad.append('some declaration pattern has no outcome')
            ob['outcomes'] = len(outs)
            O._finish(ob, t0, bad, unknown=bool(bad) and all(b.startswith('UNKNOWN') for b in bad))
            ob['functions_inlined'] = sorted(eng.encoded)
            ob['library_models'] = sorted(eng.models_used)
        except (M.MirError, AttributeError) as e:
            O._finish(ob, t0, ['MIR: ' + str(e)], unknown=True)
            ob['detail'] = 'MIR: ' + str(e)
        obs.append(ob)
    return obs


# ------------------------------------------------------------------------------------------------ replay on the real code
DRIVER_SRC = os.path.join(C.VERIF, 'harness', 'c17replay')


def build_driver():
    """the replay driver links /repo/lib as it is now; -> path of the binary or None"""
    import shutil, subprocess
    d = os.path.join(C.CACHE, 'c17replay')
    os.makedirs(os.path.join(d, 'src'), exist_ok=True)
    shutil.copy(os.path.join(DRIVER_SRC, 'Cargo.toml'), d)
    shutil.copy(os.path.join(DRIVER_SRC, 'src', 'main.rs'), os.path.join(d, 'src'))
    shutil.copy(os.path.join(C.REPO, 'Cargo.lock'), d)
    with C.Lock('c17replay'):
        r = subprocess.run(['cargo', 'build', '--offline'], cwd=d, capture_output=True, text=True, env=dict(C.ENV, CARGO_NET_OFFLINE='true'), timeout=1800)
    if r.returncode != 0:
        return None, r.stderr[-1500:]
    return os.path.join(d, 'target', 'debug', 'c17replay'), ''


def spec_of(cx, kind):
    prop = {"name": "member", "type": "int", "read": "member", "constant": False, "designable": True, "final": False, "index": 0, "required": False,
            "scriptable": True, "stored": True, "user": False}
    classes = []
    for c, sup in enumerate(cx['supers']):
        d = {"className": f"C{c}", "qualifiedClassName": f"C{c}", "object": True,
             "superClasses": [{"access": "public", "name": (f"C{t}" if t >= 0 else "Missing")} for t in sup]}
        if cx['declares'][c]:
            d["properties"] = [prop]
            d["enums"] = [{"isClass": False, "isFlag": False, "name": "MemberEnum", "values": ["MemberVariant"]}]
            d["methods"] = [{"access": "public", "name": "memberFn", "returnType": "void"}]
        classes.append(d)
    q = {"kind": kind, "a": f"C{cx.get('a', 0)}", "b": f"C{cx.get('b', 0)}"}
    return {"classes": classes, "queries": [q]}


def py_reach(supers):
    n = len(supers)
    R = [[i == j for j in range(n)] for i in range(n)]
    for _ in range(n):
        for i in range(n):
            for k in range(n):
                if R[i][k]:
                    for t in supers[k]:
                        if t >= 0:
                            R[i][t] = True
    return R


def violates(kind, cx, out):
    """does the REAL result `out` contradict the specification on the concrete graph of cx?"""
    sup, dec, a, b = cx['supers'], cx['declares'], cx.get('a', 0), cx.get('b', 0)
    R = py_reach(sup)
    n = len(sup)
    dang = lambda x: any(R[x][i] and any(t < 0 for t in sup[i]) for i in range(n))
    if out == 'TIMEOUT':
        return 'the query does not terminate'
    if out.startswith('PANIC'):
        return 'the query panics'
    if kind == 'is_derived_from':
        if out == 'true' and not R[a][b]:
            return 'true although the base is not reachable'
        if out == 'false' and R[a][b] and not dang(a):
            return 'false although the base is reachable'
        return None
    if kind == 'common_base_class':
        common = [i for i in range(n) if R[a][i] and R[b][i]]
        if out == 'None':
            return 'None although a common base exists' if common and not dang(a) and not dang(b) else None
        if out == 'Err':
            return 'Err without a dangling reference' if not dang(a) and not dang(b) else None
        m = re.match(r'Ok\(C(\d+)\)', out)
        return None if m and int(m.group(1)) in common else f'{out} is not a common base'
    decl = [i for i in range(n) if R[a][i] and dec[i]]
    if out == 'None':
        return 'not found although declared by an ancestor-or-self' if decl else None
    if out == 'Err':
        return 'Err without a dangling reference' if not dang(a) else None
    m = re.match(r'Ok\(C(\d+)', out)
    if not m or int(m.group(1)) not in decl:
        return f'{out}: not a declaring ancestor-or-self'
    if dec[a] and int(m.group(1)) != a:
        return f"{out}: the class's own declaration does not take precedence"
    return None


def replay_resolve_type(ob, workdir):
    """class C0 (with or without a nested enum MemberEnum) in a module that has or has not a top-level class MemberEnum"""
    import subprocess
    drv, err = build_driver()
    if drv is None:
        return False, {'error': 'replay driver does not build: ' + err}
    failed, tried = [], 0
    pats = [tuple(c['declares'][:2]) for c in ob.get('counterexamples') or []] + [(True, True), (False, True), (True, False)]
    for d0, d1 in dict.fromkeys(pats):
        classes = [{"className": "C0", "qualifiedClassName": "C0", "object": True}]
        if d0:
            classes[0]["enums"] = [{"isClass": False, "isFlag": False, "name": "MemberEnum", "values": ["MemberVariant"]}]
        if d1:
            classes.append({"className": "MemberEnum", "qualifiedClassName": "MemberEnum", "object": True})
        spec = {"classes": classes, "queries": [{"kind": "resolve_type", "a": "C0", "b": "C0"}]}
        tried += 1
        try:
            r = subprocess.run([drv], input=json.dumps(spec), capture_output=True, text=True, timeout=20)
            m = re.search(r'RESULT (.*)', r.stdout)
            out = m.group(1).strip() if m else 'PANIC ' + r.stderr.strip()[-200:]
        except subprocess.TimeoutExpired:
            out = 'TIMEOUT'
        want = 'Ok(C0::MemberEnum)' if d0 else ('Ok(MemberEnum)' if d1 else 'None')
        if out != want:
            with open(os.path.join(workdir, f'scope{tried}.json'), 'w') as f:
                json.dump(spec, f, indent=1)
            failed.append({'query': 'resolve_type', 'class_declares': d0, 'module_declares': d1, 'real_result': out, 'expected': want, 'why': 'not the innermost declaration'})
    with open(os.path.join(workdir, 'README.txt'), 'w') as f:
        f.write('cargo run (harness/c17replay, linked against /repo/lib) < scopeN.json\n' + json.dumps(failed, indent=1) + '\n')
    return bool(failed), {'tried': tried, 'failed_probes': failed}


def replay_graphs(ob, workdir):
    import subprocess
    os.makedirs(workdir, exist_ok=True)
    kind = re.match(r'c17_mir_(\w+?)\[', ob['name']).group(1)
    if kind == 'resolve_type':
        return replay_resolve_type(ob, workdir)
    drv, err = build_driver()
    if drv is None:
        return False, {'error': 'replay driver does not build: ' + err}
    failed, tried = [], 0
    for i, cx in enumerate((ob.get('counterexamples') or [])[:12]):
        if 'supers' not in cx:
            continue
        spec = spec_of(cx, kind)
        tried += 1
        try:
            r = subprocess.run([drv], input=json.dumps(spec), capture_output=True, text=True, timeout=20)
            m = re.search(r'RESULT (.*)', r.stdout)
            out = m.group(1).strip() if m else 'PANIC ' + r.stderr.strip()[-200:]
        except subprocess.TimeoutExpired:
            out = 'TIMEOUT'
        why = violates(kind, cx, out)
        if why:
            with open(os.path.join(workdir, f'graph{i}.json'), 'w') as f:
                json.dump(spec, f, indent=1)
            failed.append({'graph': cx['supers'], 'declares': cx['declares'], 'a': cx.get('a'), 'b': cx.get('b'), 'query': kind, 'real_result': out, 'why': why})
    with open(os.path.join(workdir, 'README.txt'), 'w') as f:
        f.write('cargo run (harness/c17replay, linked against /repo/lib) < graphN.json  -- the real typemap query on the class graph of the counterexample\n' + json.dumps(failed, indent=1) + '\n')
    return bool(failed), {'tried': tried, 'failed_probes': failed}


def run(res, args):
    fns, consts = O.load()
    # measured: (3,3) costs ~4 min per member lookup (1148 outcomes), (4,2) is out of reach for the lookups
    sizes = [(2, 2, None), (3, 2, None)]
    if C.tier() == 'thorough':
        sizes += [(3, 3, ('is_derived_from', 'get_property', 'common_base_class')), (4, 2, ('is_derived_from',))]
    for N, S, only in sizes:
        obs = obligations(fns, consts, N, S, only)

        def replay(ob, d):
            rep, info = replay_graphs(ob, d)
            fp = info.get('failed_probes') or [{}]
            return rep, info, {'site': 'typemap::class', 'query': fp[0].get('query'), 'why': fp[0].get('why')}
        O.merge(res, obs, res.coverage, replay, 'class graph')
    res.assumptions += [
        'C17 engine C: std containers / combinators and the name-resolution of a single reference are models (listed per obligation); Class identity = index of the class; the member tables are one symbolic bit per class',
        'Outside the claim: resolve_type_scoped / lexical parent chains, MethodDataTable binary search, enum variant tables, QML-component classes with temporary names, attached_class',
    ]
