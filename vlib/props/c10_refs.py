"""C10, second part: every name used as a reference denotes exactly one declared object.
PARSED FACTS over an ENUMERATED family of documents (no solver; labelled so in evidence): for each kind of target object
(widget, layout, action, static separator, menu, spacer), each kind of reference site (operand of a dynamic binding,
receiver of a handler statement, sender of a handler, static `actions` list, object-valued constant property) and the
"children inside a leaf object" shapes, the real CLI either rejects the document or every `ui_-><name>` of the support
header, every <addaction name=..> and every object-valued <cstring> of the .ui names exactly one declared object."""
import itertools, os, re
from .. import common as C
from ..tv import driver as D

TARGETS = {
    # kind: (declaration with id t, readable string property, slot callable from a handler, notifying signal handler)
    'widget': ('QLineEdit { id: t; text: "x" }', 'text', 'setEnabled(false)', None),
    'menu': ('QMenu { id: t; title: "m" }', 'title', 'setEnabled(false)', None),
    'action': ('QAction { id: t; text: "a" }', 'text', 'setEnabled(false)', 'onTriggered'),
    'separator': ('QAction { id: t; separator: true }', 'text', 'setEnabled(false)', None),
    'dyn-separator': ('QAction { id: t; separator: src.checked }', 'text', 'setEnabled(false)', None),
    'layout': ('QHBoxLayout { id: t }', None, None, None),
}


def documents():
    docs = []
    head = 'import qmluic.QtWidgets\nQWidget {\n id: top\n QVBoxLayout {\n  id: lay\n  QCheckBox { id: src }\n'
    tail = ' }\n}\n'
    for kind, (decl, sprop, slot, _) in TARGETS.items():
        holder = f'  QMenu {{ id: holder\n   {decl}\n  }}\n' if kind in ('action', 'separator', 'dyn-separator', 'menu') else f'  {decl}\n'
        sites = {'none': ''}
        if sprop:
            sites['binding-operand'] = f'  QLineEdit {{ id: dst; text: t.{sprop} }}\n'
            sites['binding-operand-via-local'] = f'  QLineEdit {{ id: dst; text: {{ let o = t; return o.{sprop} }} }}\n'
        if slot:
            sites['handler-receiver'] = f'  QPushButton {{ id: btn; onClicked: t.{slot} }}\n'
        if kind in ('action', 'separator', 'dyn-separator'):
            sites['actions-list'] = '  QToolBar { id: bar; actions: [t] }\n'
            sites['actions-list+operand'] = f'  QToolBar {{ id: bar; actions: [t] }}\n  QLineEdit {{ id: dst; text: t.text }}\n'
        if kind == 'menu':
            sites['actions-list'] = '  QToolBar { id: bar; actions: [t.menuAction()] }\n'
        if kind == 'widget':
            sites['object-valued-property'] = '  QLabel { id: lab; buddy: t }\n'
            # references to an object of an incompatible class: must be rejected
            sites['actions-list-of-widgets'] = '  QToolBar { id: bar; actions: [t] }\n'
            sites['actions-list-of-widgets-2'] = '  QLineEdit { id: t2 }\n  QToolBar { id: bar; actions: [t, t2] }\n'
        if kind == 'action':
            sites['buddy-is-an-action'] = '  QLabel { id: lab; buddy: t }\n'
        if kind == 'layout':
            sites['buddy-is-a-layout'] = '  QLabel { id: lab; buddy: t }\n'
        for site, text in sites.items():
            docs.append((f'{kind}/{site}', head + holder + text + tail))
    # objects nested in objects that cannot carry children in a .ui
    for name, outer in (('separator', 'QAction { separator: true\n    CHILD\n   }'), ('action', 'QAction { text: "a"\n    CHILD\n   }'),
                        ('dyn-separator', 'QAction { separator: src.checked\n    CHILD\n   }')):
        for cname, child in (('action', 'QAction { id: t; text: "q" }'), ('anonymous-action-with-handler', 'QAction { onTriggered: src.toggle() }')):
            for site in ('', '  QToolBar { id: bar; actions: [t] }\n', '  QLineEdit { id: dst; text: t.text }\n'):
                if 'anonymous' in cname and site:
                    continue
                docs.append((f'child-of-{name}/{cname}/{"ref" if site else "noref"}',
                             head + '  QMenu { id: holder\n   ' + outer.replace('CHILD', child) + '\n  }\n' + site + tail))
    docs.append(('child-of-spacer', head + '  QSpacerItem { QLabel { id: t } }\n  QLineEdit { id: dst; text: t.text }\n' + tail))
    return docs


def check_doc(qmluic, work, name, text):
    """-> (status, problems)"""
    r = D.run_cli(qmluic, work, text, 'Refs')
    if r.rc != 0 or r.ui is None:
        if 'panicked at' in r.stderr:
            return 'panic', ['the translator panics: ' + r.stderr.strip().split('\n')[-1][:200]]
        return 'rejected', []
    declared = re.findall(r'<(?:widget|layout|spacer|action)\b[^>]*\bname="([^"]*)"', r.ui)
    kind_of = {n: (k, c) for k, c, n in re.findall(r'<(widget|layout|spacer|action)\b(?:[^>]*\bclass="([^"]*)")?[^>]*\bname="([^"]*)"', r.ui)}
    probs = []
    # compatible class: <addaction> names an action or a menu; a buddy (<cstring>) names a widget
    for n in re.findall(r'<addaction name="([^"]*)"', r.ui):
        k = kind_of.get(n)
        if n != 'separator' and k and not (k[0] == 'action' or (k[0] == 'widget' and 'Menu' in (k[1] or ''))):
            probs.append(f'<addaction> {n}: refers to a {k[0]} of class {k[1] or "?"}, not to an action or menu')
    for n in re.findall(r'<cstring>([^<]*)</cstring>', r.ui):
        k = kind_of.get(n)
        if k and k[0] != 'widget':
            probs.append(f'<cstring> {n}: a buddy must be a widget, this is a {k[0]}')
    for n in sorted(set(declared)):
        if declared.count(n) > 1:
            probs.append(f'name {n} is declared {declared.count(n)} times')
    refs = [('addaction', n) for n in re.findall(r'<addaction name="([^"]*)"', r.ui) if n != 'separator']
    refs += [('cstring', n) for n in re.findall(r'<cstring>([^<]*)</cstring>', r.ui)]
    refs += [('ui_->', n) for n in re.findall(r'ui_->(\w+)', r.header or '')]
    for kind, n in sorted(set(refs)):
        if declared.count(n) != 1:
            probs.append((f'{kind}{n}' if kind == 'ui_->' else f'<{kind}> {n}') + ': no object of that name is declared in the .ui')
    return 'accepted', probs


def run(res):
    qmluic = C.build_native()
    work = os.path.join(C.CACHE, 'tv', 'c10r-%d' % os.getpid())
    stats = {'documents': 0, 'accepted': 0, 'rejected': 0, 'problems': 0}
    samples = []
    for name, text in documents():
        status, probs = check_doc(qmluic, work, name, text)
        stats['documents'] += 1
        stats[status if status in stats else 'rejected'] += 1
        samples.append({'shape': name, 'status': status, 'problems': probs})
        if probs:
            stats['problems'] += 1
            d = C.new_replay_dir('C10', 'refs-' + re.sub(r'\W+', '-', name))
            with open(os.path.join(d, 'Refs.qml'), 'w') as f:
                f.write(text)
            with open(os.path.join(d, 'README.txt'), 'w') as f:
                f.write('qmluic generate-ui --foreign-types /repo/contrib/metatypes Refs.qml\n' + '\n'.join(probs) + '\n')
            kind, site = name.split('/')[0], name.split('/')[1]
            role = 'support code refers to a static separator' if kind == 'separator' and ('operand' in site or 'receiver' in site) else name
            res.violation({'site': 'reference resolution', 'role': role}, f'{name}: ' + '; '.join(probs) + '\n' + text, d)
    res.coverage['reference_resolution(parsed facts over enumerated documents, no solver)'] = dict(stats, samples=samples)
    import shutil
    shutil.rmtree(work, ignore_errors=True)
