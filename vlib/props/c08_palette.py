"""C08, builder part: make_palette_properties.  Unlike the writers (c08.py) a builder may call things in hash order (that only
permutes diagnostics); what must not depend on the order is the VALUE it returns.  The MIR is executed with a semantic model
of its two local containers (colour groups: map name -> group value; default roles: sequence), for K=2 entries of the
palette binding map whose kind (colour group / default role / rejected) and group name are symbolic, once per iteration
order of the binding map and of the group map; z3 decides for all compatible path pairs that the returned value is the same."""
import itertools, re, time
import z3
from .. import common as C, mir as M
from . import mir_obligations as O
from . import c08

GROUPS = ['active', 'inactive', 'disabled']


class H:
    def __init__(self, name):
        self.name = name


def enum_variants(rel_path, enum_name):
    import os
    text = open(os.path.join(C.REPO, rel_path)).read()
    m = re.search(r'enum ' + enum_name + r'(?:<[^>{]*>)?\s*\{(.*?)\n\}', text, re.S)
    if not m:
        raise M.MirError('enum ' + enum_name + ' not found')
    return re.findall(r'^\s*([A-Z]\w*)\s*[\(\{,]', m.group(1), re.M)


class PalBuild(c08.Engine):
    def __init__(self, fns, consts, order0, rev_groups, variants):
        super().__init__(fns, consts, 2, {0: order0})
        self.rev_groups = rev_groups
        self.variants = variants
        self.other_variant = next(v for v in variants if v != 'PaletteColorGroup')

    def kind(self, e):
        return z3.Int(f'kind[{e}]')        # 0 rejected, 1 colour group, 2 default role

    def keyidx(self, e):
        return z3.Int(f'group_name[{e}]')  # 0..2 = active / inactive / disabled, 3 = another name

    def call(self, c, it, p):
        name, a = c.callee, c.args
        last = name.split('::')[-1]
        if not hasattr(p, 'heap'):
            p.heap = {}
        recv = c08.deref(a[0]) if a else None
        if name.endswith('PaletteColorGroup as std::default::Default>::default') or name.endswith('PaletteColorGroup as Default>::default'):
            return ('grp', 'default', frozenset())
        if last == 'from' and 'HashMap' in name and isinstance(recv, M.Tup):
            p.heap['groups'] = {x.items[0][1]: x.items[1] for x in recv.items}
            return H('groups')
        if name.startswith('Vec::') and last == 'new':
            p.heap['roles'] = ()
            return H('roles')
        if last == 'build' and 'SerializableValue' in name:
            e = it.name_of(c08.deref(a[1])).split('.')[0]
            k = self.kind(e)
            grp = M.Adt('SerializableValue::PaletteColorGroup', [('grp', e, frozenset())])
            oth = M.Adt('SerializableValue::' + self.other_variant, [M.Opaque(e + '.built')])
            return M.Fork([([k == 0], None, M.Adt('Option::None', [])), ([k == 1], None, M.Adt('Option::Some', [grp])), ([k == 2], None, M.Adt('Option::Some', [oth]))])
        if isinstance(recv, H) and recv.name == 'groups':
            g = p.heap['groups']
            if last == 'insert':
                e = it.name_of(c08.deref(a[1])).split('.')[0]
                ki = self.keyidx(e)
                outs = []
                for i, nm in enumerate(GROUPS + ['other:' + e]):
                    h1 = dict(p.heap)
                    h1['groups'] = dict(g, **{nm: a[2]})
                    outs.append(([ki == i], h1, M.Opaque('replaced')))
                return M.Fork(outs)
            if last in ('values_mut', 'iter_mut'):
                keys = sorted(g, reverse=self.rev_groups)
                return M.Adt('SortedSeq', [M.Ref(H('cell:' + k)) for k in keys])
            if last == 'into_iter':
                return M.Opaque('result:' + repr(sorted((k, (v[1], tuple(sorted(v[2])))) for k, v in g.items())))
            raise M.MirError('unmodelled operation on the colour group map: ' + name)
        if isinstance(recv, H) and recv.name == 'roles':
            if last == 'push':
                role = c08.canon(c08.deref(a[1]).items[0])
                p.heap['roles'] = p.heap['roles'] + (role,)
                return M.Tup([])
            if last in ('deref', 'as_slice'):
                return a[0]
            raise M.MirError('unmodelled operation on the default role list: ' + name)
        if last == 'merge_default_roles':
            cell = c08.deref(a[0])
            if not (isinstance(cell, H) and cell.name.startswith('cell:')):
                raise M.MirError('merge_default_roles on ' + repr(cell))
            key = cell.name[5:]
            g = p.heap['groups']
            v = g[key]
            h = dict(g)
            h[key] = ('grp', v[1], v[2] | frozenset(p.heap['roles']))
            p.heap['groups'] = h
            return M.Tup([])
        if isinstance(recv, M.Opaque) and recv.name.startswith('result:') and last in ('map', 'collect'):
            return recv
        return super().call(c, it, p)


def obligation(fns, consts):
    ob = O._ob('c08_mir_hash_order_palette_builder[K=2]', 'uigen::gadget::make_palette_properties',
               'two palette bindings, each symbolically a colour group (named active / inactive / disabled / other), a default role, or rejected; both iteration orders of the binding map and of the colour-group map; '
               'merge_default_roles is the set-union model justified by c19_mir_palette_default_roles',
               'the returned colour groups (name -> origin and set of merged default roles) do not depend on either iteration order')
    t0 = time.time()
    bad = []
    try:
        fn = M.find_fn(fns, r'^make_palette_properties$')
        variants = enum_variants('lib/src/uigen/expr.rs', 'SerializableValue')
        for i, v in enumerate(variants):
            M.VARIANT_INDEX[v] = i
        runs = {}
        for order0 in ((0, 1), (1, 0)):
            for rev in (False, True):
                eng = PalBuild(fns, consts, order0, rev, variants)
                runs[(order0, rev)] = eng.run(fn)
        base = runs[((0, 1), False)]
        e0, e1 = 'm0e0', 'm0e1'
        eng = PalBuild(fns, consts, (0, 1), False, variants)
        pre = [eng.kind(e) >= 0 for e in (e0, e1)] + [eng.kind(e) <= 2 for e in (e0, e1)] + [eng.keyidx(e) >= 0 for e in (e0, e1)] + [eng.keyidx(e) <= 3 for e in (e0, e1)]
        pre.append(z3.Or(eng.keyidx(e0) != eng.keyidx(e1), eng.keyidx(e0) == 3))
        decided = 0
        for key, paths in runs.items():
            if key == ((0, 1), False):
                continue
            for qa in base:
                ra = c08.canon(qa.ret)
                for qb in paths:
                    rb = c08.canon(qb.ret)
                    if ra == rb:
                        continue
                    r = M.check(pre + qa.pc + qb.pc, 20000)
                    decided += 1
                    if r == 'unsat':
                        continue
                    if r == 'unknown':
                        bad.append('UNKNOWN: path pair')
                        continue
                    m = r[1]
                    ev = lambda t: m.eval(t, model_completion=True).as_long()
                    kinds = {0: 'rejected', 1: 'colour group', 2: 'default role'}
                    cx = {e: (kinds[ev(eng.kind(e))], (GROUPS + ['other'])[ev(eng.keyidx(e))] if ev(eng.kind(e)) == 1 else None) for e in (e0, e1)}
                    bad.append(f'binding-map order {key[0]}, group-map order {"reversed" if key[1] else "forward"}: the result differs for bindings {cx}: {ra[:200]}  vs  {rb[:200]}')
                    ob['counterexample'] = cx
                    break
                if bad:
                    break
            if bad:
                break
        ob['paths'] = len(base)
        ob['path_pairs_decided'] = decided
    except (M.MirError, KeyError, AttributeError, IndexError) as e:
        O._finish(ob, t0, ['MIR: ' + repr(e)], unknown=True)
        ob['detail'] = 'MIR: ' + repr(e)
        return ob
    O._finish(ob, t0, bad, unknown=bool(bad) and all(b.startswith('UNKNOWN') for b in bad))
    return ob


PAL_DOC = """import qmluic.QtWidgets
QWidget {
    palette.window: "black"
    palette.base: "navy"
    palette.disabled.windowText: "gray"
    palette.inactive.windowText: "silver"
    palette.active.text: "white"
}
"""


def replay(ob, workdir, runs=32):
    import hashlib, os
    from ..tv import driver as D
    os.makedirs(workdir, exist_ok=True)
    outs = {}
    for i in range(runs):
        r = D.run_cli(C.build_native(), workdir, PAL_DOC, 'PalOrder')
        if r.rc != 0 or not r.ui:
            return False, {'error': 'replay document rejected: ' + r.stderr[-300:]}
        h = hashlib.sha1(r.ui.encode()).hexdigest()
        if h not in outs:
            outs[h] = 1
            with open(os.path.join(workdir, f'palorder-{len(outs)}.ui'), 'w') as f:
                f.write(r.ui)
    with open(os.path.join(workdir, 'README.txt'), 'w') as f:
        f.write(f'qmluic generate-ui --foreign-types /repo/contrib/metatypes PalOrder.qml, run {runs} times: {len(outs)} distinct outputs\n')
    return len(outs) > 1, {'runs': runs, 'distinct_outputs': len(outs)}
