"""C11 (partial): the object tree and child order of the QML document are preserved.  Engine C on the MIR of uigen/object.rs.

T1  UiObject::build: the element kind follows the class ancestry in the documented order -- action (static separator or
    <action>, children refused) before layout before menu before widget; anything else is reported and treated as a widget
    (all 2^4 ancestry patterns, is_derived_from results symbolic);
T2  Widget::build: an explicit `actions` list is used as it is (separators mapped), otherwise the action-like children in
    declaration order; never both;
T3  Widget::serialize_to_xml / UiObject::serialize_to_xml: with two children and two actions (symbolic, in a vector), the
    <addaction> entries and the child elements are written in vector order, each child exactly once, between the start and
    end tag of the widget, through the serialiser of its own kind;
T4  process_widget_children / collect_action_like_children: built by map / filter_map over the children in order (no
    reordering adaptor on the way)."""
import json, os, re, time
import z3
from .. import common as C, mir as M
from . import mir_obligations as O, c08, c04
from .c08_palette import enum_variants
from .c15 import canon, is_err

LEVEL = 'proof'
CLASSES = ['action', 'layout', 'menu', 'widget']


def t1_dispatch(fns, consts):
    ob = O._ob('c11_mir_element_kind_dispatch', 'uigen::object::UiObject::build', 'all ancestry patterns over {QAction, QLayout, QMenu, QWidget} (is_derived_from results symbolic), separator or not',
               'QAction-derived => children refused, then <addaction name="separator"/> iff it is a static separator, else <action>; else QLayout-derived => <layout>; else QMenu-derived => menu widget; '
               'else QWidget-derived => <widget>; otherwise an error is reported and the object is still built as a widget')
    t0 = time.time()
    bad = []
    try:
        fn = M.find_fn(fns, r'object\.rs:\d+:\d+: \d+:14>::build$')
        cfields = O.struct_fields('lib/src/uigen/context.rs', 'KnownClasses')
        variants = enum_variants('lib/src/uigen/object.rs', 'UiObject')
        known = M.Adt('KnownClasses', [M.Opaque('classes.' + f) for f in cfields], cfields)
        dfields = O.struct_fields('lib/src/uigen/context.rs', 'BuildDocContext')
        ctx = M.Adt('BuildDocContext', [known if f == 'classes' else M.Opaque('ctx.' + f) for f in dfields], dfields)
        der = {c: z3.Bool('derives_from_' + c) for c in CLASSES}
        SEP = z3.Bool('is_static_separator')

        def model(c, it, p):
            last = c.callee.split('::<')[0].split('::')[-1]
            if last == 'is_derived_from':
                t = canon(c.args[1])
                for k in CLASSES:
                    if t.endswith('classes.' + k):
                        return der[k]
                raise M.MirError('is_derived_from(' + t + ')')
            if last == 'is_action_separator':
                return SEP
            if last == 'deref' and isinstance(c08.deref(c.args[0]), M.Adt):
                return c.args[0]
            return None
        # ctx.classes may be reached through a reference field: hand out the ADT for any projection of `classes`
        it = M.Interp(fn, consts, arg_values={'_1': M.Ref(ctx)}, call_model=model)
        paths = [q for q in it.run() if q.end == 'return']
        cover = []
        for q in paths:
            if M.check(q.pc) == 'unsat':
                continue
            cover.append(z3.And(q.pc) if q.pc else z3.BoolVal(True))
            r = q.ret
            kind = r.path.split('::')[-1] if isinstance(r, M.Adt) else None
            names = [c.callee.split('::<')[0].split('::')[-1] for c in q.calls]
            inner = canon(r.fields[0]) if isinstance(r, M.Adt) and r.fields else ''
            a, l, m, w = der['action'], der['layout'], der['menu'], der['widget']
            want = {'ActionSeparator': z3.And(a, SEP), 'Action': z3.And(a, z3.Not(SEP)), 'Layout': z3.And(z3.Not(a), l), 'Menu': z3.And(z3.Not(a), z3.Not(l), m),
                    'Widget': z3.And(z3.Not(a), z3.Not(l), z3.Not(m))}.get(kind)
            if want is None:
                bad.append(f'unexpected result {canon(r)[:80]}')
                continue
            O._unsat(q.pc + [z3.Not(want)], bad, f'an object is built as {kind} although its class ancestry says otherwise')
            if kind in ('Action', 'ActionSeparator') and 'confine_children' not in names:
                bad.append(f'{kind}: children of an action are not refused')
            if kind == 'Action' and 'new(' not in inner:
                bad.append('Action is not built by Action::new')
            if kind == 'Layout' and not inner.startswith('build('):
                bad.append('Layout is not built by Layout::build')
            if kind in ('Menu', 'Widget') and not inner.startswith('build('):
                bad.append(f'{kind} is not built by Widget::build')
            if kind == 'Widget':
                pushed = any(n == 'push' for n in names)
                r_ = M.check(q.pc + [z3.Not(w)])
                if r_ != 'unsat' and not pushed:
                    bad.append('a class that is neither action, layout nor widget is built as a widget without a diagnostic')
                if pushed:
                    O._unsat(q.pc + [w], bad, 'a QWidget-derived class is reported as "not a QAction, QLayout, nor QWidget"')
        O._unsat([z3.Not(z3.Or(cover))] if cover else [z3.BoolVal(True)], bad, 'some ancestry pattern has no returning path')
        ob['paths'] = len(cover)
    except (M.MirError, ValueError) as e:
        O._finish(ob, t0, ['MIR: ' + str(e)], unknown=True)
        ob['detail'] = 'MIR: ' + str(e)
        return ob
    return O._finish(ob, t0, sorted(set(bad))[:6])


def t2_actions(fns, consts):
    ob = O._ob('c11_mir_explicit_actions_list_wins', 'uigen::object::Widget::build', 'all paths; presence of the `actions` binding and its evaluation symbolic',
               'with an `actions` binding exactly that list is used (through build_object_ref_list; nothing collected from the children), without one the action-like children are collected; '
               'the children are built before and handed to Widget::new unchanged')
    t0 = time.time()
    bad = []
    try:
        cands = [f for n, f in fns.items() if re.search(r'object\.rs:\d+:\d+: \d+:12>::build$', n) and f.header.rstrip(' {').endswith('object::Widget')]
        if len(cands) != 1:
            raise M.MirError(f'{len(cands)} Widget::build bodies')
        fn = cands[0]
        HAS = z3.Bool('has_actions_binding')
        OKL = z3.Bool('actions_list_evaluates')

        def model(c, it, p):
            name = c.callee.split('::<')[0]
            last = name.split('::')[-1]
            if last == 'get' and 'HashMap' in c.callee and any(isinstance(a, tuple) and a[0] == 'str' and a[1] == 'actions' for a in [c08.deref(x) for x in c.args]):
                return M.Fork([([HAS], None, M.Adt('Option::Some', [M.Opaque('actions_binding')])), ([z3.Not(HAS)], None, M.Adt('Option::None', []))])
            if last == 'build_object_ref_list':
                return M.Fork([([OKL], None, M.Adt('Option::Some', [M.Opaque('ref_list')])), ([z3.Not(OKL)], None, M.Adt('Option::None', []))])
            return None
        it = M.Interp(fn, consts, call_model=model)
        paths = [q for q in it.run() if q.end == 'return']
        n = 0
        for q in paths:
            if M.check(q.pc) == 'unsat':
                continue
            n += 1
            names = [c.callee.split('::<')[0].split('::')[-1] for c in q.calls]
            has = M.check(q.pc + [z3.Not(HAS)]) == 'unsat'
            hasnot = M.check(q.pc + [HAS]) == 'unsat'
            if has and 'collect_action_like_children' in names:
                bad.append('an explicit actions list is given but actions are (also) collected from the children')
            if has and 'build_object_ref_list' not in names:
                bad.append('an explicit actions list is given but not evaluated')
            if hasnot and 'collect_action_like_children' not in names:
                bad.append('no actions list is given and the action-like children are not collected')
            news = [c for c in q.calls if c.callee.split('::<')[0].endswith('Widget::new') or (c.callee.split('::<')[0].split('::')[-1] == 'new' and len(c.args) == 7)]
            kids = [c for c in q.calls if c.callee.split('::<')[0].split('::')[-1] in ('process_widget_children', 'process_tab_widget_children')]
            if len(news) != 1 or len(kids) != 1:
                bad.append(f'{len(kids)} children builders / {len(news)} Widget::new calls on a path')
                continue
            if canon(news[0].args[5]).replace('&', '') != canon(kids[0]).replace('&', ''):
                bad.append(f'Widget::new does not receive the children as built: {canon(news[0].args[5])[:80]}')
            t = canon(news[0].args[4])
            if hasnot and not t.replace('&', '').startswith('collect_action_like_children('):
                bad.append(f'the collected actions are not what Widget::new receives: {t[:80]}')
            if has and M.check(q.pc + [z3.Not(OKL)]) == 'unsat' and 'ref_list' not in t:
                bad.append(f'the explicit list is not what Widget::new receives: {t[:80]}')
        if n < 3:
            bad.append(f'only {n} paths (stale)')
        ob['paths'] = n
    except M.MirError as e:
        O._finish(ob, t0, ['MIR: ' + str(e)], unknown=True)
        ob['detail'] = 'MIR: ' + str(e)
        return ob
    return O._finish(ob, t0, sorted(set(bad))[:6])


class VecSeq(c08.Engine):
    """iteration over named vectors yields two named items in order; adaptors that reorder are visible as such"""
    def __init__(self, fns, consts, vec_names):
        super().__init__(fns, consts, 2, {})
        self.vec_names = vec_names

    def call(self, c, it, p):
        name = c.callee.split('::<')[0]
        last = name.split('::')[-1]
        if not hasattr(p, 'heap'):
            p.heap = {}
        recv = c08.deref(c.args[0]) if c.args else None
        rn = canon(recv) if recv is not None else ''
        if last in ('iter', 'into_iter', 'deref', 'as_slice') and not isinstance(recv, M.Adt):
            for vn in self.vec_names:
                if rn.endswith(vn):
                    if last in ('deref', 'as_slice'):
                        return c.args[0]
                    return M.Adt('Seq', [M.Ref(M.Opaque(f'{vn}[0]')), M.Ref(M.Opaque(f'{vn}[1]'))])
        if isinstance(recv, M.Adt) and recv.path == 'Seq':
            if last in ('into_iter', 'iter', 'by_ref'):
                return recv
            if last == 'rev':
                return M.Adt('Seq', list(reversed(recv.fields)))
            if last == 'next':
                k = p.heap.get(id(recv), 0)
                p.heap[id(recv)] = k + 1
                return M.Adt('Option::Some', [recv.fields[k]]) if k < len(recv.fields) else M.Adt('Option::None', [])
            raise M.MirError(f'vector items flow into Iterator::{last}')
        return super().call(c, it, p)


def t3_order(fns, consts):
    ob = O._ob('c11_mir_children_and_actions_in_order', 'uigen::object::Widget::serialize_to_xml', 'a widget with two actions and two children (symbolic values in vector order); io errors not followed',
               'between the start and the end tag of the widget, <addaction> is written for actions[0] then actions[1], and children[0] then children[1] are serialised, each exactly once')
    t0 = time.time()
    bad = []
    try:
        cands = [f for n, f in fns.items() if re.search(r'object\.rs:\d+:\d+: \d+:12>::serialize_to_xml$', n) and 'object::Widget,' in f.header]
        if len(cands) != 1:
            raise M.MirError(f'{len(cands)} Widget::serialize_to_xml bodies')
        fn = cands[0]
        wfields = O.struct_fields('lib/src/uigen/object.rs', 'Widget')
        me = M.Adt('Widget', [M.Opaque('widget.' + f) for f in wfields], wfields)
        eng = VecSeq(fns, consts, ['widget.actions', 'widget.children'])
        it = eng.interp(fn, {'_1': M.Ref(me)})
        p0 = M.Path()
        p0.heap = {}
        paths = [q for q in it.run(path=p0, max_paths=3000) if q.end == 'return']
        n = 0
        for q in paths:
            if M.check(q.pc) == 'unsat':
                continue
            n += 1
            tr = q.heap.get('#trace', ())
            acts = [i for i, t in enumerate(tr) if 'widget.actions[' in t]
            kids = [i for i, t in enumerate(tr) if 'serialize_to_xml(' in t and 'widget.children[' in t]
            order_a = [re.search(r'widget\.actions\[(\d)\]', tr[i]).group(1) for i in acts]
            order_k = [re.search(r'widget\.children\[(\d)\]', tr[i]).group(1) for i in kids]
            dedup = lambda xs: [x for i, x in enumerate(xs) if i == 0 or xs[i - 1] != x]
            if dedup(order_a) != ['0', '1']:
                bad.append(f'actions are written in the order {dedup(order_a)}')
            if order_k != ['0', '1']:
                bad.append(f'children are serialised in the order {order_k}')
            ws = [i for i, t in enumerate(tr) if t.startswith('Writer') and 'write_event' in t]
            if ws and kids and not (ws[0] < kids[0] and kids[-1] < ws[-1]):
                bad.append('a child is serialised outside the start / end tag of its parent')
        if n == 0:
            bad.append('no path (stale)')
        ob['paths'] = n
    except M.MirError as e:
        O._finish(ob, t0, ['MIR: ' + str(e)], unknown=True)
        ob['detail'] = 'MIR: ' + str(e)
        return ob
    return O._finish(ob, t0, sorted(set(bad))[:6])


def t3b_layout_order(fns, consts):
    ob = O._ob('c11_mir_layout_items_in_order', 'uigen::layout::Layout::serialize_to_xml', 'a layout with two items (symbolic values in vector order); every combination of empty / non-empty attribute arrays; io errors not followed',
               'children[0] then children[1] are serialised, each exactly once, after the <layout> start tag and before its end tag')
    t0 = time.time()
    bad = []
    try:
        cands = [f for n, f in fns.items() if n.endswith('::serialize_to_xml') and '(_1: &layout::Layout,' in f.header]
        if len(cands) != 1:
            raise M.MirError(f'{len(cands)} Layout::serialize_to_xml bodies')
        lfields = O.struct_fields('lib/src/uigen/layout.rs', 'Layout')
        me = M.Adt('Layout', [M.Opaque('layout.' + f) for f in lfields], lfields)
        eng = VecSeq(fns, consts, ['layout.children'])
        it = eng.interp(cands[0], {'_1': M.Ref(me)})
        p0 = M.Path()
        p0.heap = {}
        n = 0
        for q in it.run(path=p0, max_paths=3000):
            if q.end != 'return' or M.check(q.pc) == 'unsat':
                continue
            n += 1
            tr = q.heap.get('#trace', ())
            kids = [i for i, t in enumerate(tr) if 'serialize_to_xml(' in t and 'layout.children[' in t]
            order = [re.search(r'layout\.children\[(\d)\]', tr[i]).group(1) for i in kids]
            if order != ['0', '1']:
                bad.append(f'layout items are serialised in the order {order}')
            ws = [i for i, t in enumerate(tr) if t.startswith('Writer') and 'write_event' in t]
            if ws and kids and not (ws[0] < kids[0] and kids[-1] < ws[-1]):
                bad.append('a layout item is serialised outside the start / end tag of the layout')
        if n == 0:
            bad.append('no path (stale)')
        ob['paths'] = n
    except M.MirError as e:
        O._finish(ob, t0, ['MIR: ' + str(e)], unknown=True)
        ob['detail'] = 'MIR: ' + str(e)
        return ob
    return O._finish(ob, t0, sorted(set(bad))[:6])


def t4_builders(fns, consts):
    ob = O._ob('c11_mir_children_built_in_order', 'uigen::object::{process_widget_children, collect_action_like_children, UiObject::serialize_to_xml}',
               'all paths; iterator adaptors as terms', 'the children vector is obj_node.children().map(UiObject::build).collect() and the action names children.iter().filter_map(..).collect(): '
               'no reordering adaptor (rev / sorted / skip) on the way; every kind of object is written by the serialiser of its own kind')
    t0 = time.time()
    bad = []
    try:
        for pat, want, banned in ((r'^process_widget_children$', ['children', 'map', 'collect'], ('rev', 'sorted', 'sorted_by_key', 'skip', 'step_by', 'take')),
                                  (r'^process_tab_widget_children$', ['children', 'map', 'collect'], ('rev', 'sorted', 'sorted_by_key', 'skip', 'step_by', 'take')),
                                  (r'^collect_action_like_children$', ['iter', 'filter_map', 'collect'], ('rev', 'sorted', 'sorted_by_key', 'skip', 'step_by', 'take'))):
            fn = M.find_fn(fns, pat)
            it = M.Interp(fn, consts)
            paths = [q for q in it.run() if q.end == 'return']
            for q in paths:
                names = [c.callee.split('::<')[0].split('::')[-1] for c in q.calls]
                if [n for n in names if n in want] != want:
                    bad.append(f'{fn.name}: built by {names}, expected the chain {want}')
                if any(n in banned for n in names):
                    bad.append(f'{fn.name}: a reordering / truncating adaptor is applied: {names}')
                # no other iterator adaptor at all (unique, dedup, filter, chain, ...): the chain is exactly the documented one
                adaptors = [c.callee.split('::<')[0].split('::')[-1] for c in q.calls if re.search(r' as (Iterator|Itertools|IntoIterator|DoubleEndedIterator)>::', c.callee)]
                extra = [a for a in adaptors if a not in want and a != 'into_iter']
                if extra:
                    bad.append(f'{fn.name}: additional iterator adaptors on the way: {extra}')
                t = canon(q.ret)
                if 'collect(' not in t:
                    bad.append(f'{fn.name}: the result is not the collected chain: {t[:80]}')
        # UiObject::serialize_to_xml: each variant goes to the serialiser of its payload; the separator writes nothing
        fn = M.find_fn(fns, r'object\.rs:\d+:\d+: \d+:14>::serialize_to_xml$')
        variants = enum_variants('lib/src/uigen/object.rs', 'UiObject')
        it = M.Interp(fn, consts, arg_values={'_1': M.Ref(M.Opaque('object'))})
        d = it.leaf('object.discr', 'isize')
        for q in it.run():
            if q.end != 'return':
                continue
            for i, v in enumerate(variants):
                if M.check(q.pc + [d == i]) == 'unsat':
                    continue
                calls = [c for c in q.calls if c.callee.split('::<')[0].endswith('serialize_to_xml')]
                if v == 'ActionSeparator':
                    if calls:
                        bad.append('a static separator writes an element of its own')
                elif len(calls) != 1 or f'object@{v}' not in canon(calls[0].args[0]):
                    bad.append(f'{v} is not written by the serialiser of its own payload: {[canon(c.args[0])[:40] for c in calls]}')
    except (M.MirError, ValueError) as e:
        O._finish(ob, t0, ['MIR: ' + str(e)], unknown=True)
        ob['detail'] = 'MIR: ' + str(e)
        return ob
    return O._finish(ob, t0, sorted(set(bad))[:6])


ITEM_ATTRS = {'alignment': 'alignment', 'column': 'column', 'colspan': 'column_span', 'row': 'row', 'rowspan': 'row_span'}


def t5_item_wrapper(fns, consts):
    ob = O._ob('c11_mir_layout_item_wrapper', 'uigen::layout::LayoutItem::serialize_to_xml', 'every combination of present / absent alignment, column, column span, row, row span (2^5, presence symbolic); io errors not followed',
               'the content is serialised exactly once between the start and end tag of an <item> element; an attribute is written iff its own field is present and carries the value of that field: '
               'alignment <- alignment, column <- column, colspan <- column_span, row <- row, rowspan <- row_span; nothing else is attached')
    t0 = time.time()
    bad = []
    try:
        cands = [f for n, f in fns.items() if n.endswith('::serialize_to_xml') and re.search(r'\(_1: &(layout::)?LayoutItem,', f.header)]
        if len(cands) != 1:
            raise M.MirError(f'{len(cands)} LayoutItem::serialize_to_xml bodies')
        lf = O.struct_fields('lib/src/uigen/layout.rs', 'LayoutItem')
        if set(ITEM_ATTRS.values()) | {'content'} != set(lf):
            raise M.MirError(f'LayoutItem fields changed: {lf}')
        me = M.Adt('LayoutItem', [M.Opaque('item.' + f) for f in lf], lf)
        eng = VecSeq(fns, consts, [])
        it = eng.interp(cands[0], {'_1': M.Ref(me)})
        p0 = M.Path()
        p0.heap = {}
        n = 0
        cover = []
        for q in it.run(path=p0, max_paths=3000):
            if q.end != 'return' or M.check(q.pc) == 'unsat':
                continue
            n += 1
            cover.append(z3.And(q.pc) if q.pc else z3.BoolVal(True))
            tr = q.heap.get('#trace', ())
            news = [t for t in tr if t.startswith('BytesStart::new(')]
            if len(news) != 1 or "'item'" not in news[0]:
                bad.append(f'the wrapper element is not a single <item>: {news[:2]}')
            pushed = {}
            for t in tr:
                if not t.startswith('BytesStart::push_attribute('):
                    continue
                m = re.search(r"\(\('str', '(\w+)'\), (.*)\)\)$", t)
                if not m:
                    bad.append('unreadable attribute: ' + t[:120])
                    continue
                if m.group(1) in pushed:
                    bad.append(f'attribute {m.group(1)} is written twice')
                pushed[m.group(1)] = m.group(2)
            for attr, val in pushed.items():
                f = ITEM_ATTRS.get(attr)
                if f is None:
                    bad.append(f'unexpected <item> attribute {attr}')
                    continue
                srcs = set(re.findall(r'item\.(\w+)@Some', val))
                if srcs != {f}:
                    bad.append(f'<item {attr}=..> carries {sorted(srcs) or val[:60]} instead of the item\'s {f}')
                # the field must be present on this path
                O._unsat(q.pc + [z3.Int(f'item.{f}.discr') != 1], bad, f'<item {attr}=..> is written although {f} is absent')
            for attr, f in ITEM_ATTRS.items():
                if attr not in pushed:
                    O._unsat(q.pc + [z3.Int(f'item.{f}.discr') == 1], bad, f'{f} is present but <item {attr}=..> is not written')
            ws = [i for i, t in enumerate(tr) if t.startswith('Writer') and 'write_event' in t]
            kids = [i for i, t in enumerate(tr) if 'serialize_to_xml(' in t and 'item.content' in t]
            if len(kids) != 1:
                bad.append(f'the content of a layout item is serialised {len(kids)} times')
            if len(ws) != 2 or 'Event::Start' not in tr[ws[0]] or 'Event::End' not in tr[ws[-1]] or (kids and not ws[0] < kids[0] < ws[-1]):
                bad.append('the content is not enclosed by the start and end tag of its <item>')
            if ws and 'push_attribute' in ''.join(tr[ws[0]:]):
                bad.append('an attribute is attached after the start tag was written')
        dom = [z3.Or(z3.Int(f'item.{f}.discr') == 0, z3.Int(f'item.{f}.discr') == 1) for f in ITEM_ATTRS.values()]
        O._unsat(dom + [z3.Not(z3.Or(cover))] if cover else [z3.BoolVal(True)], bad, 'some presence pattern has no returning path')
        ob['paths'] = n
    except (M.MirError, z3.Z3Exception) as e:
        O._finish(ob, t0, ['MIR: ' + str(e)], unknown=True)
        ob['detail'] = 'MIR: ' + str(e)
        return ob
    return O._finish(ob, t0, sorted(set(bad))[:6])


def t6_item_content(fns, consts):
    ob = O._ob('c11_mir_layout_item_kind_dispatch', 'uigen::layout::LayoutItemContent::{build, serialize_to_xml}', 'all ancestry patterns over {QLayout, QSpacerItem, QWidget} (is_derived_from results symbolic)',
               'a child of a layout is built as a nested <layout> iff its class derives from QLayout, else as a <spacer> iff it is a QSpacerItem (children refused), else as a widget; a class that is none of the three is '
               'reported and still built as a widget; each kind is written by the serialiser of its own payload')
    t0 = time.time()
    bad = []
    try:
        fn = M.find_fn(fns, r'layout\.rs:\d+:\d+: \d+:23>::build$')
        cfields = O.struct_fields('lib/src/uigen/context.rs', 'KnownClasses')
        known = M.Adt('KnownClasses', [M.Opaque('classes.' + f) for f in cfields], cfields)
        dfields = O.struct_fields('lib/src/uigen/context.rs', 'BuildDocContext')
        ctx = M.Adt('BuildDocContext', [known if f == 'classes' else M.Opaque('ctx.' + f) for f in dfields], dfields)
        KINDS = ['layout', 'spacer_item', 'widget']
        der = {c: z3.Bool('item_derives_from_' + c) for c in KINDS}

        def model(c, it, p):
            last = c.callee.split('::<')[0].split('::')[-1]
            if last == 'is_derived_from':
                t = canon(c.args[1])
                for k in KINDS:
                    if t.endswith('classes.' + k):
                        return der[k]
                raise M.MirError('is_derived_from(' + t + ')')
            if last == 'deref' and isinstance(c08.deref(c.args[0]), M.Adt):
                return c.args[0]
            return None
        it = M.Interp(fn, consts, arg_values={'_1': M.Ref(ctx)}, call_model=model)
        cover = []
        l, s, w = der['layout'], der['spacer_item'], der['widget']
        for q in it.run():
            if q.end != 'return' or M.check(q.pc) == 'unsat':
                continue
            cover.append(z3.And(q.pc) if q.pc else z3.BoolVal(True))
            r = q.ret
            kind = r.path.split('::')[-1] if isinstance(r, M.Adt) else None
            names = [c.callee.split('::<')[0].split('::')[-1] for c in q.calls]
            inner = canon(r.fields[0]) if isinstance(r, M.Adt) and r.fields else ''
            want = {'Layout': l, 'SpacerItem': z3.And(z3.Not(l), s), 'Widget': z3.And(z3.Not(l), z3.Not(s))}.get(kind)
            if want is None:
                bad.append(f'unexpected result {canon(r)[:80]}')
                continue
            O._unsat(q.pc + [z3.Not(want)], bad, f'a layout child is built as {kind} although its class ancestry says otherwise')
            if kind == 'SpacerItem' and 'confine_children' not in names:
                bad.append('children of a spacer item are not refused')
            if kind == 'SpacerItem' and not inner.startswith('new('):
                bad.append('SpacerItem is not built by SpacerItem::new')
            if kind in ('Layout', 'Widget') and not inner.startswith('build('):
                bad.append(f'{kind} is not built by its build()')
            if kind in ('Layout', 'Widget') and '_2' not in inner and 'obj_node' not in inner:
                pass
            if kind == 'Widget':
                pushed = 'push' in names
                if M.check(q.pc + [z3.Not(w)]) != 'unsat' and not pushed:
                    bad.append('a layout child that is neither layout, spacer nor widget is built as a widget without a diagnostic')
                if pushed:
                    O._unsat(q.pc + [w], bad, 'a QWidget-derived layout child is reported as an error')
        O._unsat([z3.Not(z3.Or(cover))] if cover else [z3.BoolVal(True)], bad, 'some ancestry pattern has no returning path')
        ob['paths'] = len(cover)
        # the serialiser: each variant to the serialiser of its own payload
        sfn = [f for n, f in fns.items() if n.endswith('::serialize_to_xml') and re.search(r'\(_1: &(layout::)?LayoutItemContent,', f.header)]
        if len(sfn) != 1:
            raise M.MirError(f'{len(sfn)} LayoutItemContent::serialize_to_xml bodies')
        variants = enum_variants('lib/src/uigen/layout.rs', 'LayoutItemContent')
        it2 = M.Interp(sfn[0], consts, arg_values={'_1': M.Ref(M.Opaque('content'))})
        d = it2.leaf('content.discr', 'isize')
        seen = set()
        for q in it2.run():
            if q.end != 'return':
                continue
            for i, v in enumerate(variants):
                if M.check(q.pc + [d == i]) == 'unsat':
                    continue
                seen.add(v)
                calls = [c for c in q.calls if c.callee.split('::<')[0].endswith('serialize_to_xml')]
                if len(calls) != 1 or f'content@{v}' not in canon(calls[0].args[0]):
                    bad.append(f'LayoutItemContent::{v} is not written by the serialiser of its own payload: {[canon(c.args[0])[:40] for c in calls]}')
        if seen != set(variants):
            bad.append(f'LayoutItemContent variants without a returning path: {sorted(set(variants) - seen)}')
    except (M.MirError, ValueError) as e:
        O._finish(ob, t0, ['MIR: ' + str(e)], unknown=True)
        ob['detail'] = 'MIR: ' + str(e)
        return ob
    return O._finish(ob, t0, sorted(set(bad))[:6])


DOC = """import qmluic.QtWidgets
QMainWindow {
    id: win
    QMenuBar {
        id: bar
        QMenu {
            id: fileMenu
            title: "File"
            QAction { id: openAct; text: "Open" }
            QAction { separator: true }
            QMenu { id: recent; title: "Recent" }
            QAction { separator: true }
            QAction { id: quitAct; text: "Quit" }
        }
    }
    QWidget {
        id: central
        QVBoxLayout {
            id: lay
            QLabel { id: first }
            QHBoxLayout {
                id: row
                QPushButton { id: b1 }
                QPushButton { id: b2 }
            }
            QSpacerItem { }
            QToolBar { id: tools; actions: [quitAct, openAct] }
            QLabel { id: last }
        }
    }
}
"""


def t8_tab_pages(fns, consts):
    ob = O._ob('c11_mir_tab_widget_children_keep_their_kind', 'uigen::object::process_tab_widget_children::{closure#0}', 'every kind of object UiObject::build can return (discriminant symbolic), attached tab properties present or not',
               'a child of a tab widget is returned as the very object UiObject::build produced for that node -- same kind (a menu stays a menu and is therefore still collected as an action of its parent), same payload; '
               'the only modification is the extension of the attribute map of a menu / widget payload by the attached tab properties')
    t0 = time.time()
    bad = []
    try:
        fn = M.find_fn(fns, r'process_tab_widget_children::\{closure#0\}$')
        variants = enum_variants('lib/src/uigen/object.rs', 'UiObject')
        ai = O.struct_fields('lib/src/uigen/object.rs', 'Widget').index('attributes')

        def model(c, it, p):
            last = c.callee.split('::<')[0].split('::')[-1]
            if last == 'build' and 'UiObject' in c.callee or last == 'build' and 'object.rs' in c.callee:
                p.builds = getattr(p, 'builds', 0) + 1
                return M.Opaque('built')
            return None
        it = M.Interp(fn, consts, call_model=model)
        d = it.leaf('built.discr', 'isize')
        seen = set()
        for q in it.run():
            if q.end != 'return' or M.check(q.pc) == 'unsat':
                continue
            nb = sum(1 for c in q.calls if c.callee.split('::<')[0].split('::')[-1] == 'build')
            if nb != 1:
                bad.append(f'the child is built {nb} times')
            for i, v in enumerate(variants):
                if M.check(q.pc + [d == i]) == 'unsat':
                    continue
                seen.add(v)
                r = q.ret
                t = canon(r)
                if isinstance(r, M.Opaque) and t == 'built':
                    continue
                kind = r.path.split('::')[-1] if isinstance(r, M.Adt) else None
                if kind != v:
                    bad.append(f'a child built as {v} is handed to the tab widget as {kind or t[:60]}')
                elif f'built@{v}' not in t:
                    bad.append(f'a child built as {v} is returned with another payload: {t[:80]}')
            names = [c.callee.split('::<')[0].split('::')[-1] for c in q.calls]
            for c_ in q.calls:
                if c_.callee.split('::<')[0].split('::')[-1] == 'extend' and not re.fullmatch(r'&?built@(Menu|Widget)\.0\.%d' % ai, canon(c_.args[0])):
                    bad.append('the attached tab properties are merged into ' + canon(c_.args[0])[:60])
            if any(n in ('remove', 'clear', 'retain', 'truncate', 'pop', 'take', 'replace', 'swap') for n in names):
                bad.append(f'the built child is modified by {[n for n in names if n in ("remove", "clear", "retain", "truncate", "pop", "take", "replace", "swap")]}')
        if seen != set(variants):
            bad.append(f'kinds without a returning path: {sorted(set(variants) - seen)}')
        ob['paths'] = len(seen)
    except (M.MirError, ValueError) as e:
        O._finish(ob, t0, ['MIR: ' + str(e)], unknown=True)
        ob['detail'] = 'MIR: ' + str(e)
        return ob
    return O._finish(ob, t0, sorted(set(bad))[:6])


TAB_DOC = """import qmluic.QtWidgets
QWidget {
    id: top
    QTabWidget {
        id: tabs
        QAction { id: first; text: "first" }
        QWidget { id: page1; QTabWidget.title: "One"; QLabel { id: inPage } }
        QMenu { id: contextMenu; title: "Menu"; QAction { id: inner; text: "inner" } }
        QAction { separator: true }
        QWidget { id: page2; QTabWidget.title: "Two" }
        QAction { id: last; text: "last" }
    }
}
"""


ITEMS_DOC = """import qmluic.QtWidgets
QWidget {
    id: top
    QGridLayout {
        id: grid
        QLabel { id: a; QLayout.row: 2; QLayout.column: 1; QLayout.rowSpan: 3; QLayout.columnSpan: 4; QLayout.alignment: Qt.AlignRight }
        QHBoxLayout { id: inner; QLayout.column: 5 }
        QSpacerItem { id: sp; QLayout.row: 7 }
        QPushButton { id: b; QLayout.row: 8; QLayout.column: 0; QLayout.columnSpan: 9 }
    }
}
"""


def replay(workdir):
    """real CLI: element kinds, nesting, sibling order, addaction order of a probe document"""
    import xml.etree.ElementTree as ET
    from ..tv import driver as D
    os.makedirs(workdir, exist_ok=True)
    r = D.run_cli(C.build_native(), workdir, DOC, 'Tree')
    failed = []
    if r.rc != 0 or not r.ui:
        return True, {'failed_probes': [{'probe': 'tree', 'why': 'the probe document is rejected: ' + r.stderr[-300:]}]}
    root = ET.fromstring(r.ui).find('widget')

    def shape(e):
        out = []
        for ch in e:
            if ch.tag in ('widget', 'layout', 'action', 'spacer'):
                out.append((ch.tag, ch.get('class'), ch.get('name'), shape(ch)))
            elif ch.tag == 'item':
                out += shape(ch)
            elif ch.tag == 'addaction':
                out.append(('addaction', ch.get('name')))
        return out
    got = (root.get('class'), root.get('name'), shape(root))
    menu = [('addaction', 'openAct'), ('addaction', 'separator'), ('addaction', 'recent'), ('addaction', 'separator'), ('addaction', 'quitAct'), ('action', None, 'openAct', []), ('widget', 'QMenu', 'recent', []), ('action', None, 'quitAct', [])]
    want = ('QMainWindow', 'win', [
        ('widget', 'QMenuBar', 'bar', [('addaction', 'fileMenu'), ('widget', 'QMenu', 'fileMenu', menu)]),
        ('widget', 'QWidget', 'central', [('layout', 'QVBoxLayout', 'lay', [
            ('widget', 'QLabel', 'first', []), ('layout', 'QHBoxLayout', 'row', [('widget', 'QPushButton', 'b1', []), ('widget', 'QPushButton', 'b2', [])]),
            ('spacer', None, 'spacerItem', []), ('widget', 'QToolBar', 'tools', [('addaction', 'quitAct'), ('addaction', 'openAct')]), ('widget', 'QLabel', 'last', [])])])])
    norm = lambda t: json.dumps(t)
    if norm(got) != norm(want):
        failed.append({'probe': 'tree', 'expected': want, 'actual': got, 'why': 'element kinds, nesting, sibling order or addaction order differ from the document'})
    # objects that cannot carry children in a .ui: nesting inside them must be refused, not silently dropped
    for name, body in (('child-of-separator', 'QMenu { id: m\n  QAction { separator: true\n   QAction { id: inner; text: "x" }\n  }\n }'),
                       ('child-of-action', 'QMenu { id: m\n  QAction { text: "a"\n   QAction { id: inner; text: "x" }\n  }\n }'),
                       ('child-of-spacer', 'QVBoxLayout {\n  QSpacerItem { QLabel { id: inner } }\n }')):
        text = f'import qmluic.QtWidgets\nQWidget {{\n id: top\n {body}\n}}\n'
        r2 = D.run_cli(C.build_native(), workdir, text, 'Leaf' + re.sub(r'\W', '', name.title()))
        if r2.rc == 0 and r2.ui and 'name="inner"' not in r2.ui:
            failed.append({'probe': name, 'document': text, 'why': 'an object nested in an action / spacer is accepted and then missing from the .ui'})
    # children of a tab widget: pages, actions, a menu and a separator keep their kind, place and order
    r4 = D.run_cli(C.build_native(), workdir, TAB_DOC, 'Tabs')
    if r4.rc != 0 or not r4.ui:
        failed.append({'probe': 'tab-widget', 'why': 'the probe document is rejected: ' + r4.stderr[-300:]})
    else:
        troot = ET.fromstring(r4.ui).find('widget')
        got_t = (troot.get('class'), troot.get('name'), shape(troot))
        want_t = ('QWidget', 'top', [('widget', 'QTabWidget', 'tabs', [
            ('addaction', 'first'), ('addaction', 'contextMenu'), ('addaction', 'separator'), ('addaction', 'last'),
            ('action', None, 'first', []), ('widget', 'QWidget', 'page1', [('widget', 'QLabel', 'inPage', [])]),
            ('widget', 'QMenu', 'contextMenu', [('addaction', 'inner'), ('action', None, 'inner', [])]),
            ('widget', 'QWidget', 'page2', []), ('action', None, 'last', [])])])
        if norm(got_t) != norm(want_t):
            failed.append({'probe': 'tab-widget', 'document': TAB_DOC, 'expected': want_t, 'actual': got_t, 'why': 'children of a tab widget: element kinds, order or the action list differ from the document'})
    # <item> wrappers: kinds of layout children, and every attribute carries the value of its own attached binding
    r3 = D.run_cli(C.build_native(), workdir, ITEMS_DOC, 'Items')
    if r3.rc != 0 or not r3.ui:
        failed.append({'probe': 'items', 'why': 'the probe document is rejected: ' + r3.stderr[-300:]})
    else:
        g = ET.fromstring(r3.ui).find('widget').find('layout')
        got_items = [(sorted(i.attrib.items()), [(ch.tag, ch.get('class'), ch.get('name')) for ch in i]) for i in g] if g is not None else None
        want_items = [({'row': '2', 'column': '1', 'rowspan': '3', 'colspan': '4', 'alignment': 'Qt::AlignRight'}, [('widget', 'QLabel', 'a')]),
                      ({'row': '2', 'column': '5'}, [('layout', 'QHBoxLayout', 'inner')]),
                      ({'row': '7', 'column': '0'}, [('spacer', None, 'sp')]),
                      ({'row': '8', 'column': '0', 'colspan': '9'}, [('widget', 'QPushButton', 'b')])]
        if g is None or g.get('class') != 'QGridLayout' or g.get('name') != 'grid' or norm(got_items) != norm([(sorted(a.items()), k) for a, k in want_items]):
            failed.append({'probe': 'items', 'document': ITEMS_DOC, 'expected': want_items, 'actual': got_items,
                           'why': 'the <item> wrappers of a grid layout (attributes, kind and class of the wrapped element) differ from the document'})
    with open(os.path.join(workdir, 'README.txt'), 'w') as f:
        f.write('qmluic generate-ui --foreign-types /repo/contrib/metatypes Tree.qml ; element tree of tree.ui vs the document\n' + json.dumps(failed, indent=1)[:3000] + '\n')
    return bool(failed), {'failed_probes': failed}


def run(res, args):
    fns, consts = O.load()
    obs = [t1_dispatch(fns, consts), t2_actions(fns, consts), t3_order(fns, consts), t3b_layout_order(fns, consts), t4_builders(fns, consts),
           t5_item_wrapper(fns, consts), t6_item_content(fns, consts), t8_tab_pages(fns, consts)]

    def rp(ob, d):
        rep, info = replay(d)
        return rep, info, {'site': ob['name'], 'probe': 'tree'}
    O.merge(res, obs, res.coverage, rp, 'object tree')
    res.assumptions += [
        'C11 engine C: Iterator::map / filter_map / collect preserve order (std contract); calls are uninterpreted',
        'Outside the claim: the ObjectTree itself (populate_node_rec on tree-sitter nodes), layouts (Layout::build, items, spans), tab widget pages, the class attribute, custom widgets, that every object appears exactly once across all container kinds',
    ]
