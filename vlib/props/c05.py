"""C05 Static typing discipline -- narrow claim: the per-operator admissible-type tables of the constant
path (tir/ceval.rs), decided by Kani for every pair of constant kinds.  The dynamic-path tables, typeutil
and the walker checks cannot be encoded (DESIGN section 3/C05)."""
from .. import common as C, kani
from . import ceval_specs as CE

LEVEL = 'proof'
SPECS = CE.TYPES + [s for s in CE.FOLD if s.kind == 'witness']


def run(res, args):
    kani.check_property(res, 'c05', CE.FRAG, SPECS, default_timeout=600 if C.tier() == 'quick' else 1500)
    res.assumptions += [
        'NARROW: only the constant-folding tables are decided; typeutil::{deduce_type,pick_type_cast,is_assignable}, '
        'builder::emit_unary/binary_expression, walker checks and return-type/parameter verification are outside (Kani ICE / tree-sitter / >15 min)',
        'kind pairs the builder can never produce as two constants (QString/QString, null, []) are only required to be rejected or compared, never to panic',
    ]
