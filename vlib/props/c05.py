"""C05 Static typing discipline -- narrow claim: the per-operator admissible-type tables of the constant
path (tir/ceval.rs), decided by Kani for every pair of constant kinds.  The dynamic-path tables, typeutil
and the walker checks cannot be encoded (DESIGN section 3/C05)."""
from .. import common as C, kani
from . import ceval_specs as CE

LEVEL = 'proof'
SPECS = CE.TYPES + [s for s in CE.FOLD if s.kind == 'witness']


def run(res, args):
    import threading
    err = []

    def kani_part():
        try:
            kani.check_property(res, 'c05', CE.FRAG, SPECS, default_timeout=600 if C.tier() == 'quick' else 1500)
        except Exception as e:          # reported after the join
            err.append(e)
    th = threading.Thread(target=kani_part)
    th.start()
    try:
        typing_agreement(res)
    finally:
        th.join()
    if err:
        raise err[0]
    res.assumptions += [
        'NARROW: only the constant-folding tables are decided; typeutil::{deduce_type,pick_type_cast,is_assignable}, '
        'builder::emit_unary/binary_expression, walker checks and return-type/parameter verification are outside (Kani ICE / tree-sitter / >15 min)',
        'kind pairs the builder can never produce as two constants (QString/QString, null, []) are only required to be rejected or compared, never to panic',
    ]


# ================================================================================================
# Engine-B side: agreement of the CLI's accept/reject verdict with the documented typing rules on
# bounded-exhaustive families of single type-breaking edits.  This part is ENUMERATION + reference type
# checking (no solver search): it is reported separately in evidence and labelled as such.
import itertools, random
from ..tv import driver as D, gen as G, lang as L

REP = {  # one representative expression per (possibly constant) type
    'cint': ('lit', 'int', 1), 'int': G.P('a', 'ival'), 'uint': G.P('a', 'uval'), 'double': G.P('a', 'dval'), 'cdouble': ('lit', 'double', 1.5),
    'bool': G.P('b', 'flag'), 'QString': G.P('a', 'sval'), 'cstr': ('lit', 'QString', 'q'), 'ptr:VNode': G.P('a', 'next'), 'cnull': ('lit', 'null', None),
    'enum:Mode': G.P('a', 'mode'), 'QStringList': G.P('a', 'items'),
}
TARGETS = ['int', 'uint', 'double', 'bool', 'QString', 'ptr:VNode', 'enum:Mode']


def return_triples(step, off):
    keys = ['cint', 'int', 'uint', 'double', 'bool', 'QString', 'cstr', 'ptr:VNode', 'cnull', 'enum:Mode']
    n = 0
    for ty in TARGETS:
        for r1, r2, r3 in itertools.product(keys, repeat=3):
            n += 1
            if n % step != off:
                continue
            body = [('if', G.P('a', 'flag'), [('return', REP[r1])], None), ('if', G.P('c', 'flag'), [('return', REP[r2])], None), ('return', REP[r3])]
            yield D.Program('binding', ty, body, tag='typing:return-triples')
        for r1, r2 in itertools.product(keys, repeat=2):
            body = [('if', G.P('a', 'flag'), [('return', REP[r1])], None), ('expr', REP[r2])]
            yield D.Program('binding', ty, body, tag='typing:return-pairs')


def operand_edits(step, off):
    """every production x every child position x a representative of every other type in that position"""
    n = 0
    for ty in G.TYPES + ['enum:Mode', 'ptr:VNode', 'QStringList']:
        for tag, cts, build in G.productions(ty):
            for pos in range(len(cts)):
                for k, rep in REP.items():
                    n += 1
                    if n % step != off:
                        continue
                    kids = [rep if i == pos else G.leaves(c, full=False)[0] for i, c in enumerate(cts)]
                    try:
                        e = build(*kids)
                    except Exception:
                        continue
                    yield D.Program('binding', ty, e, tag='typing:operand-edit')


def statement_rules():
    I = lambda v: ('lit', 'int', v)
    out = []
    keys = list(REP)
    for k in keys:        # conditions must be bool
        out.append(D.Program('binding', 'int', [('if', REP[k], [('return', I(1))], None), ('return', I(2))], tag='typing:condition'))
        out.append(D.Program('binding', 'int', ('tern', REP[k], I(1), I(2)), tag='typing:condition'))
        out.append(D.Program('binding', 'bool', ('bin', '&&', REP[k], G.P('a', 'flag')), tag='typing:condition'))
        out.append(D.Program('binding', 'bool', ('bin', '||', G.P('a', 'flag'), REP[k]), tag='typing:condition'))
        out.append(D.Program('binding', 'bool', ('un', '!', REP[k]), tag='typing:condition'))
    anns = ['int', 'uint', 'double', 'bool', 'QString', 'ptr:VNode', 'enum:Mode']
    for ann in anns:      # declarations and assignments
        for k in keys:
            out.append(D.Program('binding', 'int', [('let', 'let', 'v', ann, REP[k]), ('return', G.P('a', 'ival'))], tag='typing:declaration'))
            out.append(D.Program('binding', 'int', [('let', 'let', 'v', ann, None), ('assign', 'v', REP[k]), ('return', G.P('a', 'ival'))], tag='typing:assignment'))
    for k in keys:
        out.append(D.Program('binding', 'int', [('let', 'const', 'v', None, REP[k]), ('assign', 'v', REP[k]), ('return', G.P('a', 'ival'))], tag='typing:const-assignment'))
        out.append(D.Program('binding', 'int', [('let', 'let', 'v', None, REP[k]), ('assign', 'v', REP[k]), ('return', G.P('a', 'ival'))], tag='typing:assignment'))
    for d in ('int', 'uint', 'QString', 'enum:Mode', 'double', 'bool', 'ptr:VNode'):   # switch discriminant vs case label
        for k in keys:
            out.append(D.Program('binding', 'int', [('switch', REP[d], [(REP[k], [('return', I(1))])]), ('return', I(2))], tag='typing:switch-case'))
    # array literals: all elements must have one common type (every pair / triple of representatives)
    akeys = ['cint', 'int', 'uint', 'double', 'bool', 'QString', 'cstr', 'ptr:VNode', 'cnull', 'enum:Mode']
    for n in (2, 3):
        for combo in itertools.product(akeys, repeat=n):
            out.append(D.Program('binding', 'int', [('let', 'let', 'v', None, ('arr', [REP[c] for c in combo])), ('return', G.P('a', 'ival'))], tag='typing:array-elements'))
    for combo in itertools.product(akeys, repeat=2):
        out.append(D.Program('binding', 'QStringList', ('arr', [REP[c] for c in combo]), tag='typing:array-elements'))
    # lexical scoping: a declaration inside a block / if body / switch clause ends with that scope -- later uses see
    # the outer variable (its type and const-ness) or nothing at all
    outer = [None, ('let', 'let', 'n', None, I(0)), ('let', 'const', 'n', None, I(0)), ('let', 'let', 'n', None, G.P('a', 'sval'))]
    inner = [('let', 'let', 'n', None, G.P('b', 'ival')), ('let', 'let', 'n', None, G.P('b', 'sval')), ('let', 'const', 'n', None, G.P('b', 'ival'))]
    def scope(kind, decl):
        if kind == 'block':
            return ('block', [decl])
        if kind == 'if':
            return ('if', G.P('a', 'flag'), [decl], None)
        if kind == 'if-else':
            return ('if', G.P('a', 'flag'), [('expr', I(1))], [decl])
        if kind == 'switch':
            return ('switch', G.P('a', 'ival'), [(I(1), [decl, ('break',)])])
        return ('switch', G.P('a', 'ival'), [(I(1), [('break',)]), (None, [decl])])
    uses = [('assign', 'n', I(2)), ('assign', 'n', ('lit', 'QString', 's')), ('expr', ('bin', '+', ('local', 'n'), I(1))), ('expr', ('bin', '+', ('local', 'n'), ('lit', 'QString', 's')))]
    for o in outer:
        for kind in ('block', 'if', 'if-else', 'switch', 'switch-default'):
            for d in inner:
                for u in uses:
                    body = ([o] if o else []) + [scope(kind, d), u, ('return', G.P('a', 'ival'))]
                    out.append(D.Program('binding', 'int', body, tag='typing:scoping'))
    # callbacks: property assignment, read-only property, method arguments
    for prop in ('ival', 'uval', 'dval', 'flag', 'sval', 'next', 'mode', 'items', 'cval'):
        for k in keys:
            out.append(D.Program('callback', None, [('setprop', ('obj', 'b'), prop, REP[k])], signal='pinged', tag='typing:property-assignment'))
    for m, nargs in (('poke', 1), ('reset', 0), ('note', 2), ('link', 1)):
        for n in range(0, 3):
            for combo in itertools.product(['cint', 'int', 'double', 'QString', 'cstr', 'ptr:VNode', 'cnull'], repeat=n):
                out.append(D.Program('callback', None, [('callm', ('obj', 'a'), m, [REP[c] for c in combo])], signal='pinged', tag='typing:method-call'))
    return out


def reference_verdict(prog):
    try:
        prog.idx = 0
        an = D.Analysis(prog, None, 1, True)
        an.ref_side()
        return 'accept', ''
    except L.IllTyped as e:
        return 'reject', str(e)
    except Exception as e:
        return 'unjudged', repr(e)[:80]


def typing_agreement(res):
    import os, shutil, hashlib
    tier = C.tier()
    # the whole enumeration costs ~20 s of CLI time, so both tiers run all of it
    progs = list(return_triples(1, 0)) + list(operand_edits(1, 0)) + statement_rules()
    qmluic = C.build_native()
    work = os.path.join(C.CACHE, 'tv', 'c05-%d' % os.getpid())
    shutil.rmtree(work, ignore_errors=True)
    seen, acc, rej, unjudged = set(), [], [], []
    for p in progs:
        key = hashlib.sha1((p.kind + str(p.ty) + p.source()).encode()).hexdigest()
        if key in seen:
            continue
        seen.add(key)
        v, why = reference_verdict(p)
        if v == 'unjudged':
            unjudged.append((p.source(), why))
            continue
        (acc if v == 'accept' else rej).append((p, why))
    stats = {'expected_accept': len(acc), 'expected_reject': len(rej), 'wrongly_rejected': 0, 'wrongly_accepted': 0}
    samples, by_tag = [], {}
    problems = []
    legit = ('integer overflow', 'integer conversion', 'unobservable property')

    def run_batch(chunk):
        """-> set of indices of chunk rejected by the CLI (iterating until the rest is accepted)"""
        rejected = {}
        idx = list(range(len(chunk)))
        for _ in range(len(chunk) + 2):
            if not idx:
                break
            doc = D.Doc([chunk[i][0] for i in idx])
            r = D.run_cli(qmluic, work, doc.text)
            if r.rc == 0:
                break
            errs = D.error_lines(r.stderr)
            bad = {}
            for line, msg in errs:
                for j, (a, b) in enumerate(doc.ranges):
                    if a <= line <= b:
                        bad.setdefault(idx[j], msg)
            if not bad:
                raise C.Inconclusive('diagnostic outside every generated binding:\n' + r.stderr[-800:])
            rejected.update(bad)
            idx = [i for i in idx if i not in bad]
        return rejected
    for group, expect in ((acc, 'accept'), (rej, 'reject')):
        for k in range(0, len(group), 40):
            chunk = group[k:k + 40]
            rejected = run_batch(chunk)
            for i, (p, why) in enumerate(chunk):
                by_tag[p.tag] = by_tag.get(p.tag, 0) + 1
                got = 'reject' if i in rejected else 'accept'
                if got == expect:
                    if len(samples) < 8 and (expect == 'reject') == (len(samples) % 2 == 0):
                        samples.append({'qml': p.source(), 'documented_rule_says': expect + (': ' + why if why else ''), 'cli': got + (': ' + rejected[i] if i in rejected else '')})
                    continue
                if expect == 'accept' and rejected[i].startswith(legit):
                    continue
                problems.append((p, expect, got, why, rejected.get(i, '')))
    for (p, expect, got, why, msg) in problems:
        stats['wrongly_accepted' if expect == 'reject' else 'wrongly_rejected'] += 1
    for n, (p, expect, got, why, msg) in enumerate(problems[:6]):
        d = C.new_replay_dir('C05', f'typing-{n + 1}')
        doc = D.Doc([p])
        with open(os.path.join(d, 'Doc.qml'), 'w') as f:
            f.write(doc.text)
        with open(os.path.join(d, 'README.txt'), 'w') as f:
            f.write(f'documented typing rules: {expect} ({why}); qmluic generate-ui: {got} ({msg})\n'
                    f'replay: qmluic generate-ui --foreign-types /repo/contrib/metatypes --foreign-types /verif/data/vnode_metatypes.json Doc.qml\n')
        if expect == 'reject':
            desc = f'ill-typed program is accepted and code is generated (rule: {why}):\n{p.source()}'
        else:
            desc = f'well-typed program of the documented subset is rejected ({msg}):\n{p.source()}'
        res.violation({'site': 'typing verdict', 'shape': p.tag, 'expect': expect}, desc, d)
    shutil.rmtree(work, ignore_errors=True)
    res.coverage['typing_agreement(enumeration + reference type checker, no solver search)'] = dict(
        stats, programs_by_family=by_tag, samples=samples, unjudged_by_reference=len(unjudged), unjudged_samples=unjudged[:3],
        rule='documented typing rules = vlib/tv/lang.py typeof/unify/assignable + result-type rule; families: return-type pairs/triples x target type, '
             'every operator x operand position x representative of every type, conditions, declarations, assignments, const, switch labels, property assignment, method arguments')
