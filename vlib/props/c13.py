"""C13 Signal callbacks are wired to the right signal and do what the source says.
Engine B: parsed connection facts + z3 comparison of effect traces (property writes, method calls, log calls
with their argument values, in order) over all signal arguments and object states."""
import random
import z3
from .. import common as C
from ..tv import suite as S, driver as D, gen as G, lang as L, cxx
from ..tv.sem import TRUE, FALSE

LEVEL = 'translation_validation'
SIGS = {'fired': [('int',), ('int', 'bool'), ('int', 'bool', 'QString'), ()], 'pinged': [()],
        'moved': [('double', 'uint'), ('double',), ()], 'linked': [('ptr:VNode',), ()],
        'ivalChanged': [('int',), ()], 'flagChanged': [('bool',), ()], 'svalChanged': [()], 'modeChanged': [()],
        'uRLChanged': [()], 'x': [()], 'aB2c': [('int',), ()]}


def callback_programs(tier, rng):
    progs = []
    # translated strings written / passed / logged by a handler (the translation context is part of the value)
    TR = ('tr', 'hello')
    for ss in ([('setprop', ('obj', 'a'), 'sval', TR)], [('callm', ('obj', 'a'), 'note', [TR])], [('log', 'log', [TR])],
               [('setprop', ('obj', 'a'), 'sval', ('bin', '+', TR, L.P('b', 'sval') if hasattr(L, 'P') else ('prop', ('obj', 'b'), 'sval')))],
               [('if', ('prop', ('obj', 'b'), 'flag'), [('setprop', ('obj', 'a'), 'sval', TR)], [('setprop', ('obj', 'a'), 'sval', ('tr', 'bye'))])],
               [('let', 'let', 's', None, TR), ('setprop', ('obj', 'a'), 'sval', ('local', 's'))]):
        progs.append(D.Program('callback', None, ss, params=[], signal='pinged', tag='cb-tr-strings'))
        progs.append(D.Program('callback', None, ss, params=[('n', 'int')], signal='fired', tag='cb-tr-strings'))
    for ss in G.void_ternary_bodies():
        progs.append(D.Program('callback', None, ss, params=[], signal='pinged', tag='cb-void-ternary'))
    for ss in G.callback_tail_shapes():
        progs.append(D.Program('callback', None, ss, params=[], signal='fired', tag='cb-tail-shape'))
        progs.append(D.Program('callback', None, ss, params=[('n', 'int')], signal='fired', tag='cb-tail-shape'))
    for ss in G.tails_after_skeletons(3 if tier == 'thorough' else 2):
        progs.append(D.Program('callback', None, ss, params=[], signal='pinged', tag='cb-tail-after-skeleton'))
    sample = 1      # the whole family (2349 programs, ~30 s) in both tiers
    for ss in G.rich_switch_tails(sample, C.seed() % sample):
        progs.append(D.Program('callback', None, ss, params=[], signal='pinged', tag='cb-rich-switch-tail'))
    # every signal x every admissible parameter prefix, body using each parameter once
    for sig, pref in SIGS.items():
        for ptys in pref:
            params = [(f'p{i}', t) for i, t in enumerate(ptys)]
            body = []
            for n, t in params:
                body.append(('setprop', ('obj', 'b'), G.TARGET[t], ('local', n)))
                body.append(('log', 'info', [('local', n)]) if not t.startswith('ptr:') else ('callm', ('obj', 'a'), 'link', [('local', n)]))
            body.append(('callm', ('obj', 'a'), 'reset', []))
            progs.append(D.Program('callback', None, body, params=params, signal=sig, tag='cb-signal-x-params'))
    # expression-bodied and block-bodied handlers (no function wrapper, no parameters)
    for sig in ('pinged', 'fired', 'ivalChanged'):
        p = D.Program('callback', None, [('callm', ('obj', 'a'), 'poke', [G.P('b', 'ival')])], signal=sig, tag='cb-expression-body')
        p.func_style = 'expr'
        progs.append(p)
        p = D.Program('callback', None, [('setprop', ('obj', 'b'), 'ival', ('bin', '+', G.P('a', 'ival'), ('lit', 'int', 1))), ('callm', ('this',), 'reset', [])], signal=sig, tag='cb-block-body')
        p.func_style = 'block'
        progs.append(p)
    n = 1500 if tier == 'thorough' else 250
    while n > 0:
        sig = rng.choice(list(SIGS))
        ptys = rng.choice(SIGS[sig])
        params = [(f'p{i}', t) for i, t in enumerate(ptys)]
        g = G.StmtGen(rng, effects=True, params={k: t for k, t in params})
        scope = {k: (t, 'let', True) for k, t in params}
        body = g.stmts(None, scope, 2, True)
        if not body:
            continue
        n -= 1
        progs.append(D.Program('callback', None, body, params=params, signal=sig, tag='cb-random'))
    return progs


def connection_facts(an):
    """parsed facts of the emitted setup<X>(): sender, overload, parameter binding.  -> list of problems"""
    p, hdr = an.prog, an.header
    probs = []
    suffix = p.suffix()
    if hdr.setup_calls.count('setup' + suffix) != 1:
        probs.append(f'setup() calls setup{suffix} {hdr.setup_calls.count("setup" + suffix)} times')
    try:
        sender, cls, sig, ov, lam, fwd = hdr.callback_connection(suffix)
    except cxx.Unsupported as u:
        return [f'connect statement not of the expected shape: {u}']
    if sender != f'this->ui_->{p.target()}':
        probs.append(f'sender is {sender}, not the declaring object')
    if sig != p.signal or cls != 'VNode':
        probs.append(f'connected to {cls}::{sig}')
    full = max(an.env.cls('VNode').signals_named(p.signal), key=lambda s: len(s.args))
    if ov != full.args:
        probs.append(f'overload {ov} is not the one carrying the most arguments {full.args}')
    if [t for t, _ in lam] != [t for _, t in p.params]:
        probs.append(f'lambda parameters {lam} differ from the declared parameters {p.params}')
    if fwd != [n for _, n in lam]:
        probs.append(f'lambda forwards {fwd}, parameters are {[n for _, n in lam]}')
    f = hdr.funcs.get('on' + suffix)
    if f is not None and [t for t, _ in f.params] != [t for _, t in p.params]:
        probs.append(f'handler function parameters {f.params}')
    return probs


def trace_and_facts_query(an):
    disj = D.trace_query(an)
    an.fact_problems = connection_facts(an)
    if an.fact_problems:
        # any defined execution with at least one effect exposes a wrong connection at replay
        for (p, kind, rv) in an.ref_outs:
            if p.effects:
                disj.append(z3.And(p.pc, p.d, p.vok))
    return disj


REJECTIONS = [
    ('onAmb: function(x: int) { a.reset() }', 'cannot bind to overloaded signal'),
    ('onAmb: a.reset()', 'cannot bind to overloaded signal'),
    ('onPoke: a.reset()', 'not a signal'),
    ('onReset: a.reset()', 'not a signal'),
    ('onNoSuchSignal: a.reset()', None),
    ('onfired: a.reset()', None), ('onURLchanged: a.reset()', None), ('onUrlChanged: a.reset()', None), ('OnFired: a.reset()', None), ('on: a.reset()', None),
    ('onFired: function(n: int, f: bool, s: QString, extra: int) { a.reset() }', None),
    ('onFired: function(n: bool) { a.reset() }', None),
    ('onFired: function(n: int, f: int) { a.reset() }', None),
    ('onMoved: function(x: int) { a.reset() }', None),
    ('onLinked: function(o: QString) { a.reset() }', None),
    ('onPinged: function(x: int) { a.reset() }', None),
    ('onFired: function(n) { a.reset() }', 'function parameter must have type annotation'),
    ('onFired: function(n: int, n: bool) { a.reset() }', 'redefinition of parameter'),
]


# handlers in places where no connection can be generated (nested object property, property group, gadget):
# accepting them would leave an accepted handler unconnected
DOC_REJECTIONS = [
    ('import qmluic.QtWidgets\nQTreeView {\n  id: view\n  header.onSectionClicked: function(index: int) { view.toolTip = "x" }\n}\n', 'callback is not supported'),
    ('import qmluic.QtWidgets\nQTreeView {\n  id: view\n  header.minimumSectionSize: 100\n  header.onSectionClicked: function(index: int) { view.toolTip = "x" }\n}\n', 'callback is not supported'),
    ('import qmluic.QtWidgets\nQTreeView {\n  id: view\n  header { onSectionDoubleClicked: function(index: int) { view.toolTip = "x" } }\n}\n', 'callback is not supported'),
    ('import qmluic.QtWidgets\nQTableView {\n  id: view\n  horizontalHeader.onSectionClicked: view.clearSelection()\n}\n', 'callback is not supported'),
]


def rejection_cases(su):
    """handlers that must be rejected with a diagnostic (enumerated concretely, no solver search)"""
    out = []
    cases = [(None, src, frag) for src, frag in REJECTIONS] + [(doc, doc.split('\n')[-3].strip(), frag) for doc, frag in DOC_REJECTIONS]
    for doc, src, frag in cases:
        text = doc or ('import qmluic.QtWidgets\nQDialog {\n  id: root\n  QVBoxLayout {\n    VNode { id: a }\n    VNode { id: t0\n      '
                       + src + '\n    }\n  }\n}\n')
        r = D.run_cli(su.qmluic, su.work, text, 'Rej')
        ok = r.rc != 0 and r.header is None and 'error' in r.stderr and (frag is None or frag in r.stderr)
        out.append({'handler': src, 'rejected': r.rc != 0, 'diagnostic_ok': ok})
        if not ok:
            d = C.new_replay_dir('C13', 'reject-%d' % len(out))
            open(d + '/Rej.qml', 'w').write(text)
            open(d + '/stderr.txt', 'w').write(r.stderr)
            su.res.violation({'site': 'rejection', 'shape': src}, f'handler that must be rejected was accepted or not diagnosed: {src}', d)
    return out


def anonymous_sender_facts(su):
    """handlers declared on objects WITHOUT id, next to ids chosen to look like generated names: every object must
    get its own name and each handler must be connected to the object that declares it (parsed facts; enumeration)"""
    import itertools, re
    out = {'documents': 0, 'handlers': 0, 'problems': 0}
    collide = ['vnode', 'vnode1', 'vnode2', 'vnode3']
    for k in range(0, len(collide) + 1):
        for ids in itertools.combinations(collide, k):
            for nanon in (2, 3):
                for ids_first in (True, False):
                    objs = [f'    VNode {{ id: {i} }}' for i in ids]
                    anon = [f'    VNode {{ onPinged: a.poke({n + 1}) }}' for n in range(nanon)]
                    body = (objs + anon) if ids_first else (anon + objs)
                    text = 'import qmluic.QtWidgets\nQDialog {\n  id: root\n  QVBoxLayout {\n    VNode { id: a }\n' + '\n'.join(body) + '\n  }\n}\n'
                    r = D.run_cli(su.qmluic, su.work, text, 'Anon')
                    out['documents'] += 1
                    if r.rc != 0 or r.header is None or r.ui is None:
                        su.res.inconc('anonymous-sender document rejected: ' + r.stderr[-300:])
                        continue
                    names = re.findall(r'<widget class="VNode" name="(\w+)"', r.ui)
                    probs = []
                    if len(set(names)) != len(names):
                        probs.append(f'object names are not pairwise distinct: {names}')
                    # anonymous objects in document order
                    anon_names = [n for n in names if n != 'a' and n not in ids]
                    hdr = cxx.Header(r.header)
                    seen = {}
                    for cb in hdr.callbacks():
                        bodytxt = ' '.join(hdr.funcs['on' + cb].body)
                        m = re.search(r'poke\((\d+)\)', bodytxt)
                        try:
                            sender, cls, sig, ov, lam, fwd = hdr.callback_connection(cb)
                        except cxx.Unsupported as u:
                            probs.append(str(u))
                            continue
                        if m:
                            seen[int(m.group(1))] = sender
                    out['handlers'] += len(seen)
                    for n in range(nanon):
                        want = f'this->ui_->{anon_names[n]}' if n < len(anon_names) else None
                        if seen.get(n + 1) != want:
                            probs.append(f'handler #{n + 1} is connected to {seen.get(n + 1)}, its declaring object is {want}')
                    if len(set(seen.values())) != len(seen):
                        probs.append(f'two handlers share one sender: {seen}')
                    if probs:
                        out['problems'] += 1
                        d = C.new_replay_dir('C13', 'anon-%d' % out['problems'])
                        open(d + '/Anon.qml', 'w').write(text)
                        open(d + '/README.txt', 'w').write('qmluic generate-ui Anon.qml; ' + '; '.join(probs) + '\n')
                        su.res.violation({'site': 'sender of anonymous object', 'shape': probs[0][:60]},
                                         'handler on an object without id is not connected to its own object:\n' + '\n'.join(probs) + '\n' + text, d)
    return out


def run(res, args):
    tier = C.tier()
    rng = random.Random(C.seed())
    su = S.Suite(res, 'c13')
    su.run(callback_programs(tier, rng), 'effect-trace + connection facts', trace_and_facts_query, S.replay_trace, batch=30)
    rej = rejection_cases(su)
    anon = anonymous_sender_facts(su)
    su.finish({'rejection_cases(enumerated, no solver)': rej, 'anonymous_sender_facts(parsed, enumerated)': anon,
               'bounds': '<=3 parameters, handlers on 8 signals incl. the default-argument family fired()/fired(int)/fired(int,bool)/fired(int,bool,QString); '
                         'statements as C01 plus property writes, slot calls, console.*; seeded random bodies'})
    res.assumptions += [
        'slots called by a handler do not change properties (the mock and the encoding agree); property writes update the store on both sides',
        'value-returning slot results are uninterpreted functions of receiver and arguments',
        "Outside: uniquify_methods / callback_to_signal_name as code (allocating string functions: OOM in CBMC), Qt's argument marshalling",
    ]
