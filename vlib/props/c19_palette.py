"""C19, palette part on the MIR: a colour bound to a DEFAULT palette role (palette.window: "...") is embedded in every colour
group, unless the group sets that role itself (PaletteColorGroup::merge_default_roles).  Same engine as C10: the MIR is
executed with the HashMap modelled on SMT arrays (arbitrary initial group), the slice of default roles as T symbolic
(name, value) pairs, the or_insert_with closure inlined."""
import re, time
import z3
from .. import common as C, mir as M
from . import mir_obligations as O
from .c10_names import Engine, MapObj, CellRef, S, as_str, deref


class PalEngine(Engine):
    def __init__(self, fns, consts, T):
        super().__init__(fns, consts, (False,))
        self.Tn = T
        self.keys = [z3.String(f'role{i}') for i in range(T)]
        self.vals = [z3.Int(f'colour{i}') for i in range(T)]
        self.keys0 = z3.Array('group_has_role', S, z3.BoolSort())
        self.vals0 = z3.Array('group_colour', S, z3.IntSort())
        self.len0 = z3.Int('group_len')
        self.empty_asked = []

    def call(self, c, it, p):
        name, a = c.callee, c.args
        last = name.split('::')[-1]
        used = self.models_used.add
        if last == 'into_iter' and it.fn.name.endswith('merge_default_roles') and not isinstance(deref(a[0]), M.Adt):
            p.heap['#pos'] = 0
            return M.Adt('SliceIter', [])
        if last in ('iter',) and it.fn.name.endswith('merge_default_roles') and 'HashMap' not in name:
            p.heap['#pos'] = 0
            return M.Adt('SliceIter', [])
        if last in ('cloned', 'copied') and isinstance(deref(a[0]), M.Adt) and deref(a[0]).path == 'SliceIter':
            return deref(a[0])
        if name.endswith('as Iterator>::next') and isinstance(deref(a[0]), M.Adt) and deref(a[0]).path == 'SliceIter':
            used('slice::Iter::next over the default roles: T symbolic (name, colour) pairs in order')
            k = p.heap['#pos']
            p.heap['#pos'] = k + 1
            if k >= self.Tn:
                return M.Adt('Option::None', [])
            return M.Adt('Option::Some', [M.Ref(M.Tup([self.keys[k], self.vals[k]]))])
        if last == 'or_insert_with':
            used('Entry::or_insert_with: the (inlined) closure supplies the value iff the key is absent')
            m, k = a[0].fields[0].fields
            h = p.heap[m.name]
            present = z3.Select(h['keys'], k)
            cfn, env = self.closure_of(a[1])
            q0 = M.Path()
            q0.heap = dict(p.heap)
            it2 = self.interp(cfn, {'_1': env})
            rets = [q for q in it2.run(path=q0) if q.end == 'return']
            if len(rets) != 1 or not z3.is_expr(deref(rets[0].ret)):
                raise M.MirError('or_insert_with closure')
            nv = deref(rets[0].ret)
            p.heap[m.name] = {'keys': z3.Store(h['keys'], k, True), 'vals': z3.If(present, h['vals'], z3.Store(h['vals'], k, nv)), 'len': h['len'] + z3.If(present, 0, 1)}
            return CellRef(m, k)
        if last == 'clone' and z3.is_expr(deref(a[0])):
            return deref(a[0])
        if last == 'is_empty' and isinstance(deref(a[0]), MapObj):
            used('HashMap::is_empty: a fresh Boolean that implies the absence of every key looked at')
            h = p.heap[deref(a[0]).name]
            e = z3.Bool(self.fresh('is_empty'))
            p.pc += [z3.Implies(e, z3.Not(z3.Select(h['keys'], k))) for k in self.keys]
            p.pc.append(z3.Implies(z3.Not(e), z3.Select(h['keys'], z3.String('some_other_role'))))
            return e
        if last == 'extend' and isinstance(deref(a[0]), MapObj) and isinstance(deref(a[1]), M.Adt) and deref(a[1]).path == 'SliceIter':
            used('HashMap::extend from the slice: every pair is inserted in order (later wins)')
            m = deref(a[0])
            h = dict(p.heap[m.name])
            for k, v in zip(self.keys, self.vals):
                h = {'keys': z3.Store(h['keys'], k, True), 'vals': z3.Store(h['vals'], k, v), 'len': h['len']}
            p.heap[m.name] = h
            return M.Tup([])
        return super().call(c, it, p)

    def closure_of(self, v):
        v = deref(v)
        nm = v.path if isinstance(v, M.Adt) else getattr(v, 'name', '')
        loc = re.search(r'closure@([^}]*)', nm)
        cands = [f for f in self.fns.values() if loc and ('closure@' + loc.group(1) + '}') in f.param_types.get('_1', '')]
        if len(cands) != 1:
            raise M.MirError('closure body')
        first = cands[0].param_types.get('_1', '')
        return cands[0], (M.Ref(v) if first.startswith('&') else v)


def obligations(fns, consts, T=2):
    ob = O._ob(f'c19_mir_palette_default_roles[T={T}]', 'uigen::gadget::PaletteColorGroup::merge_default_roles (+ its or_insert_with closure, inlined MIR)',
               f'an arbitrary colour group (HashMap on SMT arrays), {T} default roles with arbitrary names and colours',
               'afterwards the group holds every default role: with its own colour if it had set the role, otherwise with the default colour (the first one if a name repeats); all other roles are unchanged')
    t0 = time.time()
    bad = []
    eng = PalEngine(fns, consts, T)
    try:
        fn = M.find_fn(fns, r'::merge_default_roles$')
        group = M.Adt('PaletteColorGroup', [MapObj('roles')])
        it = eng.interp(fn, {'_1': M.Ref(group), '_2': M.Opaque('default_roles')})
        p0 = M.Path()
        p0.heap = eng.initial_heap()
        p0.heap['roles'] = {'keys': eng.keys0, 'vals': eng.vals0, 'len': eng.len0}
        paths = [q for q in it.run(path=p0) if q.end == 'return']
        if not paths:
            bad.append('no returning path')
        s_ = z3.String('any_role')
        cover = []
        for q in paths:
            h = q.heap['roles']
            cover.append(z3.And(q.pc) if q.pc else z3.BoolVal(True))
            for i in range(T):
                first = eng.vals[i]
                for j in range(i - 1, -1, -1):
                    first = z3.If(eng.keys[j] == eng.keys[i], eng.vals[j], first)
                want = z3.If(z3.Select(eng.keys0, eng.keys[i]), z3.Select(eng.vals0, eng.keys[i]), first)
                O._unsat(q.pc + [z3.Not(z3.Select(h['keys'], eng.keys[i]))], bad, f'default role #{i} is missing from a group that does not set it')
                O._unsat(q.pc + [z3.Select(h['keys'], eng.keys[i]), z3.Select(h['vals'], eng.keys[i]) != want], bad, f'default role #{i} carries the wrong colour (own colour must win, else the default)')
            other = z3.And([s_ != k for k in eng.keys])
            O._unsat(q.pc + [other, z3.Or(z3.Select(h['keys'], s_) != z3.Select(eng.keys0, s_), z3.And(z3.Select(eng.keys0, s_), z3.Select(h['vals'], s_) != z3.Select(eng.vals0, s_)))],
                     bad, 'a role that is not a default role is changed')
        if cover:
            O._unsat([z3.Not(z3.Or(cover))], bad, 'some input has no returning path')
    except M.MirError as e:
        O._finish(ob, t0, ['MIR: ' + str(e)], unknown=True)
        ob['detail'] = 'MIR: ' + str(e)
        return [ob]
    O._finish(ob, t0, bad, unknown=bool(bad) and all(b.startswith('UNKNOWN') for b in bad))
    ob['functions_inlined'] = sorted(eng.encoded)
    ob['library_models'] = sorted(eng.models_used)
    return [ob]


PROBE = """import qmluic.QtWidgets
QWidget {
    palette.window: "#8f40"
    palette.base: "red"
    palette.disabled.windowText: "DarkSlateGray"
    palette.active.window: "blue"
}
"""


def replay(workdir):
    """-> (reproduced, info): the default roles must appear in every group that does not set them; own roles win"""
    import os
    from ..tv import driver as D
    os.makedirs(workdir, exist_ok=True)
    r = D.run_cli(C.build_native(), workdir, PROBE, 'PalProbe')
    if r.rc != 0 or not r.ui:
        return False, {'failed_probes': [], 'error': r.stderr[:300]}
    failed = []

    def colour(group, role):
        import xml.etree.ElementTree as ET
        root = ET.fromstring(r.ui)
        for g in root.iter(group):
            for cr in g.findall('colorrole'):
                if cr.get('role') == role:
                    c = cr.find('.//color')
                    return (int(c.get('alpha')), int(c.find('red').text), int(c.find('green').text), int(c.find('blue').text))
        return None
    want = {('disabled', 'Window'): (0x88, 0xff, 0x44, 0x00), ('disabled', 'Base'): (255, 255, 0, 0), ('disabled', 'WindowText'): (255, 47, 79, 79),
            ('active', 'Window'): (255, 0, 0, 255), ('active', 'Base'): (255, 255, 0, 0)}
    for (g, role), w in want.items():
        got = colour(g, role)
        if got != w:
            failed.append({'group': g, 'role': role, 'expected(alpha,r,g,b)': w, 'actual': got})
    with open(os.path.join(workdir, 'README.txt'), 'w') as f:
        f.write('qmluic generate-ui --foreign-types /repo/contrib/metatypes PalProbe.qml\n' + str(failed) + '\n')
    return bool(failed), {'failed_probes': failed}
