"""C10 Object names are unique (generated names vs. each other and vs. ids).  Engine C only: the MIR of
ObjectTree::ensure_object_names with the name generator inlined, library containers modelled on SMT arrays, strings in
z3's string theory (see c10_names.py).  Engine A cannot compile anything that reaches HashMap (Kani ICE) and the
allocating string kernels of qtname.rs exhaust memory (measured: variable_name_for_type with a 3-byte input > 9 min / OOM)."""
from .. import common as C

LEVEL = 'proof'


def run(res, args):
    from . import c10_names, c10_refs
    c10_names.run(res, args)
    c10_refs.run(res)
