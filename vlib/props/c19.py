"""C19 Colour strings are read the way Qt reads them.  Engine A on parse_hex_color; engine C on the MIR of
Color::from_str (dispatch) and of the SVG keyword table initialiser."""
from .. import common as C, kani

LEVEL = 'proof'
P = 'color::verif_kani::'
Q, T = ('quick', 'thorough'), ('thorough',)
SPECS = [
    kani.Spec(P + 'c19_parse_hex_color_short', 'color::parse_hex_color', 'every ASCII string of 0..4 bytes after #',
              'accepted iff 3 or 4 hex digits; channels = digit*17, #argb alpha first; everything else rejected (incl. a leading + sign)'),
    kani.Spec(P + 'c19_parse_hex_color_ascii', 'color::parse_hex_color', 'every ASCII string of 0..9 bytes after # (symbolic bytes and length)',
              'accepted iff all hex digits and length in {3,4,6,8}; #rgb/#argb digits*17, #rrggbb/#aarrggbb bytes, alpha first; lengths 0,1,2,5,7,9 rejected', T, timeout=1500),
    kani.Spec(P + 'c19_parse_hex_color_non_ascii', 'color::parse_hex_color', 'every UTF-8 string of 1..4 bytes containing a non-ASCII character', 'rejected, no panic on char boundaries'),
    kani.Spec(P + 'c19_witness_reachable', 'color::parse_hex_color', '3 ASCII bytes', 'vacuity witness', kind='witness'),
]
FRAGS = {'color.rs': kani.FRAGMENTS['color.rs']}


def run(res, args):
    kani.check_property(res, 'c19', FRAGS, SPECS)
    from . import mir_obligations as O
    fns, consts = O.load()

    def replay(ob, d):
        if ob['name'] == 'c19_mir_svg_table' and ob.get('keyword') is not None:
            rep, info = O.replay_color_keyword(ob['keyword'], ob.get('want'), d)
            return rep, info, {'site': 'SVG_NAMED_COLORS', 'keyword': ob['keyword']}
        # dispatch refutations: probe the three non-table arms through the CLI
        failed = []
        for kw, want in (('transparent', [0, 0, 0]), ('TransParent', [0, 0, 0]), ('#102030', [16, 32, 48]), ('Red', [255, 0, 0]), ('red', [255, 0, 0]), ('nosuchcolour', None), ('#12', None),
                         ('blac\u212a', None), ('\u212ahaki', None), ('HotPin\u212a', None), ('\u017filver', None), ('BLAC\u212a', None), ('##fff', None), ('###80123abc', None), ('#', None), ('##', None), ('# fff', None), ('#fff#', None), (' #fff', None), ('#ffff ', None)):
            rep, info = O.replay_color_keyword(kw, want, d)
            if rep:
                failed.append(info)
        return bool(failed), {'failed_probes': failed}, {'site': 'Color::from_str', 'probe': failed[0]['keyword'] if failed else None}
    O.merge(res, O.c19_color(fns, consts), res.coverage, replay, 'color')

    def replay_pal(ob, d):
        failed = []
        for r in ob.get('bad_roles') or []:
            rep, info = O.replay_palette_role(r, d)
            if rep:
                failed.append(dict(info, role=r))
        return bool(failed), {'failed_probes': failed}, {'site': 'palette role table', 'role': failed[0]['role'] if failed else None}
    O.merge(res, O.c19_palette_roles(fns, consts), res.coverage, replay_pal, 'palette')

    def replay_gad(ob, d):
        rep, info = O.replay_color_gadget(d)
        return rep, info, {'site': 'Color -> Gadget', 'probe': info['failed_probes'][0]['colour'] if info['failed_probes'] else None}
    O.merge(res, O.c19_color_gadget(fns, consts), res.coverage, replay_gad, 'gadget')
    from . import c19_palette

    def replay_palm(ob, d):
        rep, info = c19_palette.replay(d)
        fp = info.get('failed_probes') or [{}]
        return rep, info, {'site': 'merge_default_roles', 'probe': f"{fp[0].get('group')}/{fp[0].get('role')}"}
    for T in (1, 2):
        O.merge(res, c19_palette.obligations(fns, consts, T), res.coverage, replay_palm, 'palette groups')
    res.assumptions += [
        'Outside the claim: HashMap lookup + to_ascii_lowercase of the keyword path and unknown-name rejection as executed code (Kani ICE on hashbrown; decided only structurally on the MIR), alpha=255 for opaque colours (impl From<Color> for Gadget, HashMap::from)',
        "Qt's rule for the four listed hex forms is the independently written qt_hex() oracle in harness/color.rs",
    ]
