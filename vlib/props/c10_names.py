"""C10, engine C: generated object names are pairwise distinct and distinct from every id.

The MIR of `ObjectTree::ensure_object_names` of the current tree is executed symbolically for K anonymous objects (the
loop is unrolled by the model of `Iterator::next`), with `UniqueNameGenerator::{new, default, generate_with_reserved_map}`,
its `find_map` closure and `concat_number_suffix` INLINED from their own MIR.  Library calls are replaced by models over
SMT theories: HashMap / HashSet = (key set: Array String->Bool, values: Array String->Int, len), `find_map` over a range =
the least index at which the (inlined, symbolically executed) closure returns Some, `format!` = concatenation decoded from
the template bytes of the MIR, usize Display = int.to.str.  Class names (hence prefixes) and ids are symbolic strings.
z3 then decides whether two generated names, or a generated name and an id, can coincide; a model is turned into a QML
document plus a metatypes file declaring classes with the model's names and is replayed through the real CLI."""
import ast, json, os, re, time
import z3
from .. import common as C, mir as M
from . import mir_obligations as O

S = z3.StringSort()
VN = z3.Function('variable_name_for_type', S, S)
INLINE = ('new', 'default', 'generate_with_reserved_map', 'generate', 'concat_number_suffix')


class MapObj:
    """handle of a modelled HashMap/HashSet; its state lives in path.heap[name]"""
    def __init__(self, name):
        self.name = name

    def __repr__(self):
        return f'<map {self.name}>'


class CellRef:
    """&mut V into the entry `key` of a modelled map"""
    def __init__(self, m, key):
        self.m, self.key, self.name = m, key, 'cell'


class Node(M.Opaque):
    pass


def deref(v):
    while isinstance(v, M.Ref):
        v = v.target
    return v


def as_str(v):
    v = deref(v)
    if isinstance(v, tuple) and v and v[0] == 'str':
        return z3.StringVal(v[1])
    if z3.is_expr(v) and v.sort() == S:
        return v
    return None


class Engine:
    def __init__(self, fns, consts, pattern):
        """pattern[k] is True when node k (in tree order) carries an id"""
        self.fns, self.consts, self.pattern = fns, consts, tuple(pattern)
        self.T = len(pattern)
        K, LEN = self.T, sum(1 for x in pattern if x)
        self.K = K
        self.B = self.T + 1           # unrolling bound of find_map ranges (>= ids + generated names + 1)
        self.seq = 0
        self.encoded = set()
        self.models_used = set()
        self.name_field = O.struct_fields('lib/src/objtree.rs', 'ObjectNodeData').index('name')
        self.class_field = O.struct_fields('lib/src/objtree.rs', 'ObjectNodeData').index('class')
        self.obj_field = O.struct_fields('lib/src/objtree.rs', 'ObjectNodeData').index('obj')
        tf = O.struct_fields('lib/src/objtree.rs', 'ObjectTree')
        self.tree_fields = tf
        # symbolic ids of the nodes that carry one
        self.ids = [z3.String(f'id{k}') for k in range(self.T) if pattern[k]]
        self.idp = [z3.BoolVal(True) for _ in self.ids]
        self.id_of = {k: z3.String(f'id{k}') for k in range(self.T) if pattern[k]}
        self.cls = [z3.String(f'class{k}') for k in range(self.T)]
        self.filter_seen = False

    def fresh(self, base):
        self.seq += 1
        return f'{base}#{self.seq}'

    # ---- heap ------------------------------------------------------------------------------------
    def initial_heap(self):
        s = z3.String('s!')
        keys = z3.Lambda([s], z3.Or([z3.And(p, s == i) for p, i in zip(self.idp, self.ids)] or [z3.BoolVal(False)]))
        ln = z3.Sum([z3.If(p, 1, 0) for p in self.idp]) if self.idp else z3.IntVal(0)
        return {'ids': {'keys': keys, 'vals': z3.K(S, z3.IntVal(0)), 'len': ln}, '#names': (), '#next': 0}

    def new_map(self, p):
        m = MapObj(self.fresh('map'))
        p.heap[m.name] = {'keys': z3.K(S, z3.BoolVal(False)), 'vals': z3.K(S, z3.IntVal(0)), 'len': z3.IntVal(0)}
        return m

    @staticmethod
    def mapof(v):
        v = deref(v)
        if isinstance(v, MapObj):
            return v
        raise M.MirError(f'not a modelled map: {v!r}')

    # ---- interpreter factory ---------------------------------------------------------------------------
    def interp(self, fn, args):
        it = M.Interp(fn, self.consts, arg_values=args, call_model=self.call)
        it._next = self._next
        self.encoded.add(fn.name)
        orig_place = it.place

        def place(text, p):
            m = re.fullmatch(r'\(\*(_\d+)\)', text.strip())
            if m and isinstance(p.env.get(m.group(1), args.get(m.group(1))), CellRef):
                c = p.env.get(m.group(1), args.get(m.group(1)))
                return z3.Select(p.heap[c.m.name]['vals'], c.key)
            return orig_place(text, p)
        it.place = place
        orig_rvalue = it.rvalue

        def rvalue(text, p):
            m = re.fullmatch(r'discriminant\((_\d+)\)', text.strip())
            if m:
                v = p.env.get(m.group(1))
                if isinstance(v, M.Adt) and v.path == 'Entry':
                    mp, k = v.fields[0].fields
                    self.models_used.add('HashMap::entry(): Occupied (discriminant 0) iff the key is present, else Vacant (1)')
                    return z3.If(z3.Select(p.heap[mp.name]['keys'], k), z3.IntVal(0), z3.IntVal(1))
            return orig_rvalue(text, p)
        it.rvalue = rvalue

        def store(place_text, value, it_, p):
            t = place_text.strip()
            m = re.fullmatch(r'\(\*(_\d+)\)', t)
            if m:
                c = p.env.get(m.group(1), args.get(m.group(1)))
                if isinstance(c, CellRef):
                    h = p.heap[c.m.name]
                    p.heap[c.m.name] = dict(h, vals=z3.Store(h['vals'], c.key, value))
                    return
            m = re.fullmatch(r'\((\(\*_\d+\))\.(\d+): .*\)', t)
            if m:
                base = it_.place(m.group(1), p)
                if isinstance(base, Node):
                    if int(m.group(2)) != self.name_field:
                        raise M.MirError(f'store into field {m.group(2)} of an object node')
                    p.heap['#names'] = p.heap['#names'] + ((base.name, value),)
                    return
            raise M.MirError('store: ' + t)
        it.store_model = store
        return it

    def _next(self):
        self.seq += 1
        return self.seq

    def resolve(self, callee):
        last = callee.split('::')[-1]
        if last not in INLINE or not ('UniqueNameGenerator' in callee or callee.split('::<')[0] == last):
            return None
        cands = [f for n, f in self.fns.items() if n.split('::')[-1] == last and ('qtname.rs' in n or n == last)]
        if len(cands) > 1:
            ty = re.findall(r'[A-Z]\w+', callee)
            cands = [f for f in cands if any(t in f.header.split('->')[-1] or f'&mut {t}' in f.header or f'&{t}' in f.header for t in ty)] or cands
        if len(cands) != 1:
            if 'qtname' in callee or 'UniqueNameGenerator' in callee or last == 'concat_number_suffix':
                raise M.MirError(f'{len(cands)} MIR bodies for {callee}')
            return None
        return cands[0]

    def inline(self, fn, args, p):
        """runs fn on a copy of p; exactly the returning paths are merged back (values: z3 terms; heap must agree)"""
        av = {f'_{i + 1}': a for i, a in enumerate(args)}
        it = self.interp(fn, av)
        q0 = M.Path()
        q0.heap = dict(p.heap)
        rets = [q for q in it.run(path=q0) if q.end == 'return']
        if not rets:
            raise M.MirError('inlined ' + fn.name + ' never returns')
        if len(rets) == 1:
            q = rets[0]
            p.pc += q.pc
            p.heap = q.heap
            p.calls += q.calls
            return q.ret if q.ret is not None else M.Tup([])
        if any(q.heap != rets[0].heap for q in rets) or not all(z3.is_expr(q.ret) for q in rets):
            raise M.MirError('inlined ' + fn.name + ' forks with different effects')
        v = rets[-1].ret
        for q in reversed(rets[:-1]):
            v = z3.If(z3.And(q.pc) if q.pc else z3.BoolVal(True), q.ret, v)
        p.pc.append(z3.Or([z3.And(q.pc) if q.pc else z3.BoolVal(True) for q in rets]))
        return v

    # ---- library models ----------------------------------------------------------------------------------
    def call(self, c, it, p):
        name, a = c.callee, c.args
        last = name.split('::')[-1]
        if not hasattr(p, 'heap') or '#next' not in p.heap:
            p.heap = self.initial_heap()
        fn = self.resolve(name)
        if fn is not None:
            return self.inline(fn, a, p)
        used = self.models_used.add
        if name.endswith(('AsRef<str>>::as_ref', 'ToOwned>::to_owned', 'String::as_str', 'Borrow<str>>::borrow', 'must_use', 'Deref>::deref', 'ToString>::to_string')) \
                or name.endswith(('as From<&str>>::from', 'Into<String>>::into')):
            s = as_str(a[0])
            if s is not None:
                used('string identity: ' + last)
                return s
        if name.endswith('Clone>::clone'):
            s = as_str(a[0])
            if s is not None:
                used('String::clone')
                return s
            if isinstance(deref(a[0]), MapObj):
                used('HashMap::clone')
                m = self.new_map(p)
                p.heap[m.name] = dict(p.heap[deref(a[0]).name])
                return m
        if last in ('cloned', 'copied', 'into_iter', 'iter') and isinstance(deref(a[0]), M.Adt) and deref(a[0]).path == 'Keys':
            return deref(a[0])
        if last == 'map' and isinstance(deref(a[0]), M.Adt) and deref(a[0]).path == 'Keys' and len(a) > 1:
            # a closure that keeps the key (k -> k or k -> (k, ..)) leaves the key set unchanged
            clo = deref(a[1])
            nm = clo.path if isinstance(clo, M.Adt) else getattr(clo, 'name', '')
            loc = re.search(r'closure@([^}]*)', nm)
            cands = [f for f in self.fns.values() if loc and loc.group(1) in f.param_types.get('_1', '')]
            if len(cands) == 1:
                key = z3.String(self.fresh('key'))
                it2 = self.interp(cands[0], {'_1': M.Ref(clo), '_2': key})
                q0 = M.Path()
                q0.heap = dict(p.heap)
                rets = [q for q in it2.run(path=q0) if q.end == 'return']
                if len(rets) == 1:
                    r = rets[0].ret
                    first = r.items[0] if isinstance(r, M.Tup) and r.items else r
                    if as_str(first) is not None and as_str(first).eq(key):
                        return deref(a[0])
            raise M.MirError('map over the keys of a map with a closure that is not key-preserving')
        if last == 'collect' and isinstance(deref(a[0]), M.Adt) and deref(a[0]).path == 'Keys':
            used('HashMap::keys().cloned().collect(): a set with the same keys')
            src = p.heap[deref(a[0]).fields[0].name]
            m = self.new_map(p)
            p.heap[m.name] = {'keys': src['keys'], 'vals': z3.K(S, z3.IntVal(0)), 'len': src['len']}
            return m
        if 'HashMap' in name or 'HashSet' in name or 'hash_map' in name:
            if last in ('keys', 'iter') and isinstance(deref(a[0]), MapObj):
                return M.Adt('Keys', [self.mapof(a[0])])
            if last in ('default', 'new'):
                used('HashMap/HashSet::new')
                return self.new_map(p)
            if last == 'entry':
                return M.Adt('Entry', [M.Adt('EntryHandle', [self.mapof(a[0]), as_str(a[1])])])
            if name.endswith('VacantEntry::insert'):
                used('VacantEntry::insert')
                m, k = deref(a[0]).fields
                h = p.heap[m.name]
                p.heap[m.name] = {'keys': z3.Store(h['keys'], k, True), 'vals': z3.Store(h['vals'], k, a[1]), 'len': h['len'] + 1}
                return CellRef(m, k)
            if name.endswith('OccupiedEntry::get'):
                used('OccupiedEntry::get')
                m, k = deref(a[0]).fields
                return M.Ref(z3.Select(p.heap[m.name]['vals'], k))
            if name.endswith('OccupiedEntry::key'):
                return deref(a[0]).fields[1]
            if last == 'or_insert':
                used('HashMap::entry().or_insert()')
                e = a[0]
                m, k = e.fields[0].fields
                h = p.heap[m.name]
                present = z3.Select(h['keys'], k)
                p.heap[m.name] = {'keys': z3.Store(h['keys'], k, True), 'vals': z3.If(present, h['vals'], z3.Store(h['vals'], k, a[1])),
                                  'len': h['len'] + z3.If(present, 0, 1)}
                return CellRef(m, k)
            if last == 'len':
                used('HashMap::len')
                return p.heap[self.mapof(a[0]).name]['len']
            if last in ('contains_key', 'contains'):
                used('HashMap::contains_key')
                k = as_str(a[1])
                if k is None:
                    raise M.MirError('contains_key of a non-string')
                return z3.Select(p.heap[self.mapof(a[0]).name]['keys'], k)
            if last == 'insert':
                used('HashMap::insert')
                m, k = self.mapof(a[0]), as_str(a[1])
                h = p.heap[m.name]
                present = z3.Select(h['keys'], k)
                nh = {'keys': z3.Store(h['keys'], k, True), 'vals': h['vals'], 'len': h['len'] + z3.If(present, 0, 1)}
                if len(a) > 2 and z3.is_expr(a[2]) and a[2].sort() == z3.IntSort():
                    nh['vals'] = z3.Store(h['vals'], k, a[2])
                p.heap[m.name] = nh
                return M.Opaque(self.fresh('inserted'))
            raise M.MirError('unmodelled map operation ' + name)
        if name.endswith('RangeInclusive::new'):
            return M.Adt('RangeInclusive', [a[0], a[1]])
        if last == 'find_map':
            used('Iterator::find_map over an integer range = least index where the closure yields Some')
            return self.find_map(c, it, p)
        if last in ('expect', 'unwrap') and 'Option' in name:
            o = a[0]
            if isinstance(o, M.Adt) and o.path.endswith('Some'):
                return o.fields[0]
            if isinstance(o, M.Adt):
                raise M.MirError('expect on ' + repr(o))
            return None
        if name.endswith('Argument::new_display'):
            return M.Adt('fmtarg', [deref(a[0])])
        if name.endswith('Arguments::new'):
            t = a[0]
            if not (isinstance(t, M.Opaque) and t.name.startswith('const b"')):
                raise M.MirError('format template ' + repr(t))
            return M.Adt('fmtArguments', [ast.literal_eval(t.name[6:]), deref(a[1])])
        if name.endswith('fmt::format'):
            used('format!: template bytes decoded (0xC0 = next argument, n<0x80 = literal of n bytes), usize Display = int.to.str')
            tmpl, args = a[0].fields
            out, i, k = [], 0, 0
            while tmpl[i] != 0:
                b = tmpl[i]
                if b == 0xC0:
                    v = deref(args.items[k].fields[0])
                    k += 1
                    s = as_str(v)
                    if s is None and not (z3.is_expr(v) and v.sort() == z3.IntSort()):
                        # result of a call left uninterpreted (e.g. a case conversion): an unknown string
                        s = z3.String(self.fresh('unknown_' + (it.name_of(v) or 'value').split('#')[0]))
                    out.append(s if s is not None else z3.IntToStr(v))
                    i += 1
                elif b < 0x80:
                    out.append(z3.StringVal(tmpl[i + 1:i + 1 + b].decode()))
                    i += 1 + b
                else:
                    raise M.MirError(f'format template byte {b:#x}')
            return out[0] if len(out) == 1 else z3.Concat(*out)
        if last == 'name' and ('Class' in name or 'TypeSpace' in name):
            n = it.name_of(deref(a[0])) or ''
            m = re.match(r'node(\d+)\.', n)
            if not m:
                raise M.MirError('class name of ' + n)
            return self.cls[int(m.group(1))]
        if last == 'variable_name_for_type':
            used('variable_name_for_type = uninterpreted function of the class name (prefix assumed in [a-z][a-z0-9]{0,2})')
            return VN(as_str(a[0]))
        if it.fn.name.endswith('update_id_map'):
            if name.endswith('as Iterator>::next'):
                used('Iterator::next of the node loop (enumerate): (k, node k) in tree order')
                k = p.heap['#next']
                p.heap['#next'] = k + 1
                if k >= self.T:
                    return M.Adt('Option::None', [])
                return M.Adt('Option::Some', [M.Tup([z3.IntVal(k), M.Ref(Node(f'node{k}', 'ObjectNodeData'))])])
            if last == 'object_id':
                n = it.name_of(deref(a[0])) or ''
                m = re.fullmatch(r'node(\d+)\.(\d+)', n)
                if m and int(m.group(2)) == self.obj_field:
                    k = int(m.group(1))
                    used('UiObjectDefinition::object_id: Some(identifier k) for the objects that carry an id')
                    return M.Adt('Option::Some', [M.Opaque(f'ident{k}', 'Identifier')]) if self.pattern[k] else M.Adt('Option::None', [])
                return None
            if name.endswith('Identifier::to_str'):
                n = it.name_of(deref(a[0])) or ''
                m = re.fullmatch(r'ident(\d+)', n)
                if m:
                    return self.id_of[int(m.group(1))]
                return None
        if last in ('is_none', 'is_some') and 'Option' in name:
            n = it.name_of(deref(a[0])) or ''
            m = re.fullmatch(r'node(\d+)\.(\d+)', n)
            if m and int(m.group(2)) == self.name_field:
                k = int(m.group(1))
                if any(nm == f'node{k}' for nm, _ in p.heap['#names']):
                    raise M.MirError('name of a node tested after it was assigned')
                return z3.BoolVal(self.pattern[k] == (last == 'is_some'))
        if name.endswith('as Iterator>::next') and it.fn.name.endswith('ensure_object_names'):
            used('Iterator::next of the node loop: the nodes in tree order, each passed through the (inlined) filter closure if the iterator has one')
            ty = self.next_item_type(it.fn)
            clo = self.find_closure(deref(a[0]))
            k = p.heap['#next']
            while k < self.T:
                node = Node(f'node{k}', 'ObjectNodeData')
                item = M.Tup([z3.Int(f'index{k}'), M.Ref(node)]) if ty.startswith('(usize') else M.Ref(node)
                keep = True
                if clo is not None:
                    self.filter_seen = True
                    it2 = self.interp(clo, {'_1': M.Opaque('filter-closure'), '_2': M.Ref(item)})
                    q0 = M.Path()
                    q0.heap = dict(p.heap)
                    rets = [q for q in it2.run(path=q0) if q.end == 'return']
                    if len(rets) != 1 or not z3.is_expr(rets[0].ret):
                        raise M.MirError('filter closure of the node loop is not a simple predicate')
                    v = z3.simplify(rets[0].ret)
                    if not (z3.is_true(v) or z3.is_false(v)):
                        raise M.MirError('filter closure does not depend on the name only: ' + str(v))
                    keep = z3.is_true(v)
                k += 1
                if keep:
                    p.heap['#next'] = k
                    p.heap['#visited'] = p.heap.get('#visited', ()) + (node.name,)
                    return M.Adt('Option::Some', [item])
            p.heap['#next'] = k
            return M.Adt('Option::None', [])
        return None

    def find_closure(self, v, depth=0):
        """the filter closure inside an iterator-adaptor chain value (calls left uninterpreted), if any"""
        if depth > 8:
            return None
        if isinstance(v, M.Call):
            if v.callee.endswith('::filter') or 'Iterator>::filter' in v.callee:
                for x in v.args:
                    x = deref(x)
                    nm = getattr(x, 'name', '') if isinstance(x, M.Opaque) else (x.path if isinstance(x, M.Adt) else '')
                    loc = re.search(r'closure@([^}]*)', nm)
                    if loc:
                        cands = [f for f in self.fns.values() if loc.group(1) in f.param_types.get('_1', '')]
                        if len(cands) != 1:
                            raise M.MirError(f'{len(cands)} bodies for the filter closure')
                        return cands[0]
                raise M.MirError('filter without a recognisable closure')
            for x in v.args:
                r = self.find_closure(deref(x), depth + 1)
                if r is not None:
                    return r
        return None

    @staticmethod
    def next_item_type(fn):
        """item type of the loop iterator, from the declared type of the local that receives next()"""
        for bb, lines in fn.blocks.items():
            for l in lines:
                m = re.match(r'(_\d+) = .* as Iterator>::next\(', l)
                if m:
                    t = fn.local_types.get(m.group(1), '')
                    m2 = re.match(r'(?:std::option::)?Option<(.*)>$', t)
                    return m2.group(1) if m2 else t
        return ''

    def find_map(self, c, it, p):
        rng, clo = deref(c.args[0]), c.args[1]
        if isinstance(rng, M.Adt) and rng.path.endswith('RangeInclusive'):
            lo, hi = rng.fields
        elif isinstance(rng, M.Adt) and rng.path.endswith('RangeFrom'):
            lo, hi = rng.fields[0], None
        else:
            raise M.MirError('find_map over ' + repr(rng))
        if not isinstance(clo, M.Adt):
            raise M.MirError('find_map closure ' + repr(clo))
        loc = re.search(r'closure@([^}]*)', clo.path)
        cands = [f for f in self.fns.values() if loc and loc.group(1) in f.param_types.get('_1', '')]
        if len(cands) != 1:
            raise M.MirError(f'{len(cands)} bodies for closure {clo.path}')
        cfn = cands[0]

        def at(j):
            it2 = self.interp(cfn, {'_1': M.Ref(clo), '_2': j})
            q0 = M.Path()
            q0.heap = dict(p.heap)
            rets = [q for q in it2.run(path=q0) if q.end == 'return']
            for q in rets:
                if any(q.heap[k] is not p.heap[k] for k in p.heap if not k.startswith('#')):
                    raise M.MirError('find_map closure writes to a map')
            some = [(z3.And(q.pc) if q.pc else z3.BoolVal(True), q.ret.fields[0]) for q in rets if q.ret.path.endswith('Some')]
            return some
        N = z3.Int(self.fresh('N'))
        someN = at(N)
        if not someN:
            raise M.MirError('closure never returns Some')
        p.pc += [N >= lo, z3.Or([c_ for c_, _ in someN]), N <= lo + self.B]
        if hi is not None:
            p.pc.append(N <= hi)
        for d in range(self.B + 1):
            j = lo + d
            p.pc.append(z3.Implies(j < N, z3.Not(z3.Or([c_ for c_, _ in at(j)] or [z3.BoolVal(False)]))))
        v = someN[-1][1]
        for c_, x in reversed(someN[:-1]):
            if isinstance(v, M.Tup):
                v = M.Tup([z3.If(c_, a_, b_) for a_, b_ in zip(x.items, v.items)])
            else:
                v = z3.If(c_, x, v)
        return M.Adt('Option::Some', [v])

    # ---- the run -------------------------------------------------------------------------------------------
    def run(self, fn_re=r'::ensure_object_names$', extra=None, empty_ids=False):
        fn = M.find_fn(self.fns, fn_re)
        ids_i = self.tree_fields.index('id_map')
        fields = [M.Opaque(f'tree.{f}') for f in self.tree_fields]
        fields[ids_i] = MapObj('ids')
        tree = M.Adt('ObjectTree', fields, list(self.tree_fields))
        it = self.interp(fn, dict({'_1': M.Ref(tree)}, **(extra or {})))
        p0 = M.Path()
        p0.heap = self.initial_heap()
        if empty_ids:
            p0.heap['ids'] = {'keys': z3.K(S, z3.BoolVal(False)), 'vals': z3.K(S, z3.IntVal(0)), 'len': z3.IntVal(0)}
        paths = [q for q in it.run(path=p0) if q.end == 'return']
        return paths

    def assumptions(self):
        az = z3.Range('a', 'z')
        an = z3.Union(az, z3.Range('0', '9'))
        pre = []
        for k in range(self.T):
            if not self.pattern[k]:
                pre.append(z3.InRe(VN(self.cls[k]), z3.Concat(az, z3.Loop(an, 0, 2))))
        idre = z3.Concat(z3.Union(az, z3.Re('_')), z3.Loop(z3.Union(an, z3.Range('A', 'Z'), z3.Re('_')), 0, 3))
        for i, s in enumerate(self.ids):
            pre.append(z3.InRe(s, idre))
            for j in range(i):
                pre.append(z3.Implies(z3.And(self.idp[i], self.idp[j]), s != self.ids[j]))
        return pre


def _local_types(fn_text):
    return {m.group(1): m.group(2) for m in re.finditer(r'^\s+let (?:mut )?(_\d+): (.*);$', fn_text, re.M)}


def obligations(fns, consts, pattern, text):
    shape = ''.join('I' if x else 'a' for x in pattern)
    fnames = 'objtree::ObjectTree::ensure_object_names + its filter closure + qtname::UniqueNameGenerator::{new, default, generate_with_reserved_map} + the find_map closure + qtname::concat_number_suffix (inlined MIR)'
    bound = (f'object sequence {shape} in tree order (I = object with an id, a = anonymous): ids are arbitrary pairwise distinct identifiers of 1..4 characters, anonymous objects have arbitrary classes '
             f'(prefix = symbolic string in [a-z][a-z0-9]{{0,2}}); counters are mathematical integers; find_map ranges unrolled to {len(pattern) + 2} candidates')
    ob_w = O._ob('c10_mir_names_witness', fnames, bound, 'vacuity witness: the unrolled path is feasible')
    ob_v = O._ob('c10_mir_ids_verbatim_and_all_named', fnames, bound, 'an object with an id keeps it as its name (no store into its name), every anonymous object is given exactly one name, which is Some(string)')
    ob_d = O._ob('c10_mir_names_distinct', fnames, bound, 'all names of the sequence (ids and generated) are pairwise distinct')
    obs = (ob_w, ob_v, ob_d)
    t0 = time.time()
    eng = Engine(fns, consts, pattern)
    fn = M.find_fn(fns, r'::ensure_object_names$')
    m = re.search(r'^fn ' + re.escape(fn.name) + r'\(.*?^\}\n', text, re.S | re.M)
    fn.local_types = _local_types(m.group(0)) if m else {}
    try:
        paths = eng.run()
        if len(paths) != 1:
            raise M.MirError(f'{len(paths)} returning paths (expected the single unrolled one)')
        p = paths[0]
        stores = {}
        for n, v in p.heap['#names']:
            stores.setdefault(n, []).append(v)
        pre = eng.assumptions() + p.pc
        r = M.check(pre, 60000)
        O._finish(ob_w, t0, [] if isinstance(r, tuple) else ['the unrolled path is infeasible'], unknown=(r == 'unknown'))
        # ids verbatim / every anonymous object named once
        t1 = time.time()
        bad, final = [], []
        for k, named in enumerate(pattern):
            st = stores.get(f'node{k}', [])
            if named:
                if st:
                    bad.append(f'object #{k} of {shape} has an id but its name is overwritten')
                final.append(eng.id_of[k] if not st else (as_str(st[-1].fields[0]) if isinstance(st[-1], M.Adt) and st[-1].fields else None))
            else:
                if len(st) != 1 or not (isinstance(st[0], M.Adt) and st[0].path.endswith('Some') and as_str(st[0].fields[0]) is not None):
                    bad.append(f'anonymous object #{k} of {shape} is assigned {st!r}')
                    final.append(None)
                else:
                    final.append(as_str(st[0].fields[0]))
        O._finish(ob_v, t1, bad)
        if bad:
            ob_v['counterexample'] = _doc(eng, None, final, pattern)
        t2 = time.time()
        if any(f is None for f in final):
            O._finish(ob_d, t2, ['names are not all defined'], unknown=not bad)
        else:
            T = len(pattern)
            pairs = [(i, j) for i in range(T) for j in range(i) if not (pattern[i] and pattern[j])]
            r = M.check(pre + [z3.Or([final[i] == final[j] for i, j in pairs] or [z3.BoolVal(False)])], 120000)
            if r == 'unsat':
                O._finish(ob_d, t2, [])
            elif r == 'unknown':
                O._finish(ob_d, t2, ['z3: unknown'], unknown=True)
                ob_d['detail'] = 'z3: unknown'
            else:
                doc = _doc(eng, r[1], final, pattern)
                ob_d['counterexample'] = doc
                O._finish(ob_d, t2, [f'two names coincide: {doc}'])
        if isinstance(M.check(pre, 60000), tuple) and all(f is not None for f in final):
            mm = M.check(pre, 60000)[1]
            ob_w['detail'] = 'e.g. ' + ', '.join(RPstr(mm.eval(v, model_completion=True)) for v in final)
    except M.MirError as e:
        for ob in obs:
            if ob['result'] is None:
                O._finish(ob, t0, ['MIR: ' + str(e)], unknown=True)
                ob['detail'] = 'MIR: ' + str(e)
    for ob in obs:
        ob['functions_inlined'] = sorted(eng.encoded)
        ob['library_models'] = sorted(eng.models_used)
        ob['filter_closure_inlined'] = eng.filter_seen
    return list(obs)


def dup_obligations(fns, consts, pattern):
    shape = ''.join('I' if x else 'a' for x in pattern)
    fname = 'objtree::ObjectTree::update_id_map'
    bound = f'object sequence {shape} (I = object with an id, a = anonymous); ids are arbitrary strings, NOT assumed distinct; the id map starts empty'
    ob = O._ob('c10_mir_duplicate_ids_rejected', fname, bound,
               'an error diagnostic is pushed on exactly the executions in which two ids are equal; afterwards the id map holds exactly the ids of the sequence')
    t0 = time.time()
    eng = Engine(fns, consts, pattern)
    bad = []
    try:
        paths = eng.run(r'::update_id_map$', {'_2': M.Opaque('source'), '_3': M.Opaque('diagnostics')}, empty_ids=True)
        named = [k for k, x in enumerate(pattern) if x]
        some_equal = z3.Or([eng.id_of[i] == eng.id_of[j] for i in named for j in named if j < i] or [z3.BoolVal(False)])
        s_ = z3.String('s?')
        feasible = 0
        for p in paths:
            if M.check(p.pc) == 'unsat':
                continue
            feasible += 1
            pushes = [c for c in p.calls if c.callee.endswith('Diagnostics::push')]
            if not pushes:
                O._unsat(p.pc + [some_equal], bad, f'{shape}: two ids are equal and no diagnostic is pushed')
            else:
                O._unsat(p.pc + [z3.Not(some_equal)], bad, f'{shape}: a diagnostic is pushed although all ids differ')
                for c in pushes:
                    if not _derives_from(c.args[1], 'Diagnostic::error'):
                        bad.append(f'{shape}: the pushed diagnostic is not built by Diagnostic::error')
            keys = p.heap['ids']['keys']
            want = z3.Or([s_ == eng.id_of[k] for k in named] or [z3.BoolVal(False)])
            O._unsat(p.pc + [z3.Select(keys, s_) != want], bad, f'{shape}: the id map does not hold exactly the ids')
        if feasible == 0:
            bad.append('no feasible path')
        ob['paths'] = feasible
    except M.MirError as e:
        O._finish(ob, t0, ['MIR: ' + str(e)], unknown=True)
        ob['detail'] = 'MIR: ' + str(e)
        return [ob]
    unknown = any(b.startswith('UNKNOWN') for b in bad)
    O._finish(ob, t0, bad, unknown=unknown and all(b.startswith('UNKNOWN') for b in bad))
    ob['functions_inlined'] = sorted(eng.encoded)
    ob['library_models'] = sorted(eng.models_used)
    return [ob]


def _derives_from(v, callee_suffix, depth=0):
    v = deref(v)
    if depth > 10:
        return False
    if isinstance(v, M.Call):
        return v.callee.endswith(callee_suffix) or any(_derives_from(x, callee_suffix, depth + 1) for x in v.args)
    return False


def replay_duplicate_ids(workdir):
    from ..tv import driver as D
    os.makedirs(workdir, exist_ok=True)
    failed = []
    for name, body, dup in (('two', 'QWidget { id: x }\n QWidget { id: x }', True), ('nested', 'QWidget { id: x\n QVBoxLayout { QLabel { id: x } } }', True),
                            ('root', 'QLabel { id: rootW_ }', True), ('distinct', 'QWidget { id: x }\n QWidget { id: x1 }', False),
                            ('three', 'QWidget { id: y }\n QWidget { id: x }\n QWidget { id: y }', True)):
        text = f'import qmluic.QtWidgets\nQWidget {{\n id: rootW_\n QVBoxLayout {{\n {body}\n }}\n}}\n'
        r = D.run_cli(C.build_native(), workdir, text, 'Dup' + name.capitalize())
        rejected = r.rc != 0 and 'duplicated object id' in r.stderr
        if rejected != dup or (not dup and r.rc != 0):
            failed.append({'probe': name, 'document': text, 'rc': r.rc, 'stderr': r.stderr[:200], 'expected': 'rejected' if dup else 'accepted'})
    with open(os.path.join(workdir, 'README.txt'), 'w') as f:
        f.write('qmluic generate-ui --foreign-types /repo/contrib/metatypes Dup*.qml\n' + json.dumps(failed, indent=1) + '\n')
    return bool(failed), {'failed_probes': failed}


def ref_obligations(fns, consts):
    """how an object reference is spelled in the support header (CxxCodeBodyTranslator::format_named_object_ref)"""
    ob = O._ob('c10_mir_named_object_ref', 'uigen::binding::CxxCodeBodyTranslator::format_named_object_ref',
               'every object name and every root object name (z3 strings); derived PartialEq of NamedObjectRef modelled as string equality, format! decoded from the MIR template',
               'a reference to the object named N is spelled this->ui_->N, verbatim, unless N is the root object, which is this->root_')
    t0 = time.time()
    bad = []
    eng = Engine(fns, consts, (False,))
    try:
        fn = M.find_fn(fns, r'::format_named_object_ref$')
        fields = O.struct_fields('lib/src/uigen/binding.rs', 'CxxCodeBodyTranslator')
        R, ROOT = z3.String('name'), z3.String('root_name')
        tr = M.Adt('CxxCodeBodyTranslator', [M.Adt('NamedObjectRef', [ROOT]) if f == 'root_object_name' else M.Opaque('tr.' + f) for f in fields], fields)
        base_call = eng.call

        def call(c, it, p):
            if c.callee.endswith('NamedObjectRef as PartialEq>::eq'):
                x, y = deref(c.args[0]), deref(c.args[1])
                if isinstance(x, M.Adt) and isinstance(y, M.Adt):
                    return x.fields[0] == y.fields[0]
            return base_call(c, it, p)
        it = eng.interp(fn, {'_1': M.Ref(tr), '_2': M.Ref(M.Adt('NamedObjectRef', [R]))})
        it.call_model = call
        p0 = M.Path()
        p0.heap = eng.initial_heap()
        paths = [q for q in it.run(path=p0) if q.end == 'return']
        want = z3.If(R == ROOT, z3.StringVal('this->root_'), z3.Concat(z3.StringVal('this->ui_->'), R))
        az = z3.Union(z3.Range('a', 'z'), z3.Range('A', 'Z'))
        idre = z3.Concat(z3.Range('a', 'z'), z3.Loop(z3.Union(az, z3.Range('0', '9')), 0, 5))
        pre = [z3.InRe(R, idre), z3.InRe(ROOT, idre)]
        if not paths:
            bad.append('no returning path')
        cover = []
        for q in paths:
            got = as_str(q.ret)
            if got is None:
                bad.append(f'returns {q.ret!r}')
                continue
            r = M.check(pre + q.pc + [got != want])
            if r == 'unknown':
                bad.append('UNKNOWN: spelling query')
            elif r != 'unsat':
                cx = {'name': RPstr(r[1].eval(R, model_completion=True)), 'root': RPstr(r[1].eval(ROOT, model_completion=True))}
                ob.setdefault('counterexamples', []).append(cx)
                bad.append(f'the reference is not spelled as documented for {cx}')
            cover.append(z3.And(q.pc) if q.pc else z3.BoolVal(True))
        O._unsat(pre + [z3.Not(z3.Or(cover))] if cover else [z3.BoolVal(True)], bad, 'some (name, root) pair has no returning path')
    except M.MirError as e:
        O._finish(ob, t0, ['MIR: ' + str(e)], unknown=True)
        ob['detail'] = 'MIR: ' + str(e)
        return [ob]
    O._finish(ob, t0, bad, unknown=bool(bad) and all(b.startswith('UNKNOWN') for b in bad))
    return [ob]


def replay_refs(workdir, cxs=()):
    """documents whose root and child ids are the model's (plus fixed ones): every reference must be spelled by the rule"""
    from ..tv import driver as D
    os.makedirs(workdir, exist_ok=True)
    cases = [(c['root'], c['name']) for c in cxs] + [('top', 'topLabel'), ('topLevel', 'top'), ('top', 'srcEdit'), ('t', 't1')]
    failed = []
    for i, (root, name) in enumerate(cases):
        child = name if name != root else name + 'X'
        text = (f'import qmluic.QtWidgets\nQWidget {{\n id: {root}\n windowTitle: src_.text\n QVBoxLayout {{\n  QLineEdit {{ id: src_ }}\n'
                f'  QLabel {{ id: {child}; text: src_.text }}\n  QLabel {{ id: dst_; text: {child}.text + {root}.windowTitle }}\n }}\n}}\n')
        r = D.run_cli(C.build_native(), workdir, text, f'RefProbe{i}')
        if r.rc != 0 or not r.header:
            failed.append({'probe': f'{root}/{child}', 'document': text, 'stderr': r.stderr[:300]})
            continue
        for want in ('this->ui_->src_->text()', 'this->root_->windowTitle()', f'this->ui_->{child}->setText(', f'this->ui_->{child}->text()', 'this->root_->setWindowTitle(', 'this->ui_->dst_->setText('):
            if want not in r.header:
                failed.append({'probe': f'{root}/{child}', 'document': text, 'missing': want})
    with open(os.path.join(workdir, 'README.txt'), 'w') as f:
        f.write('qmluic generate-ui --foreign-types /repo/contrib/metatypes RefProbe*.qml; expected spellings missing from the headers:\n' + json.dumps(failed, indent=1) + '\n')
    return bool(failed), {'failed_probes': failed}


LOOKUPS = ['get_by_id', 'get_property', 'get_public_method', 'get_type']


def lookup_order_obligations(fns, consts):
    """which declaration a bare name denotes inside an object (ObjectContext::get_ref): an object id first"""
    ob = O._ob('c10_mir_name_lookup_order', 'uigen::context::ObjectContext::get_ref',
               'all 16 combinations of "found / not found" for the four lookups (symbolic results; lookups themselves uninterpreted)',
               'a name that is an object id denotes that object, whatever else carries the name; only then the implicit this.<property>, this.<method>, and type names, in that order; none iff nothing is found')
    t0 = time.time()
    bad = []
    try:
        cands = [f for n, f in fns.items() if n.endswith('::get_ref') and 'uigen/context.rs' in n]
        if len(cands) != 1:
            raise M.MirError(f'{len(cands)} MIR bodies for ObjectContext::get_ref')
        found = {k: z3.Bool('found_' + k) for k in LOOKUPS}

        def model(c, it, p):
            last = c.callee.split('::')[-1]
            if last in LOOKUPS:
                if not hasattr(p, 'heap'):
                    p.heap = {}
                p.heap['#lookups'] = p.heap.get('#lookups', ()) + (last,)
                return M.Fork([([found[last]], None, M.Adt('Option::Some', [M.Opaque('result_of_' + last)])),
                               ([z3.Not(found[last])], None, M.Adt('Option::None', []))])
            return None
        it = M.Interp(cands[0], consts, call_model=model)
        paths = [q for q in it.run() if q.end == 'return']
        cover = []
        for q in paths:
            seq = getattr(q, 'heap', {}).get('#lookups', ())
            cover.append(z3.And(q.pc) if q.pc else z3.BoolVal(True))
            if list(seq) != LOOKUPS[:len(seq)]:
                bad.append(f'the lookups are made in the order {list(seq)}, documented: {LOOKUPS}')
                continue
            s_ = z3.Solver()
            s_.add(*q.pc)
            if s_.check() != z3.sat:
                continue
            m_ = s_.model()
            hit = [k for k in seq if z3.is_true(m_.eval(found[k], model_completion=True))]
            text = _canon(q.ret)
            if not hit:
                if len(seq) != len(LOOKUPS) or 'None' not in text:
                    bad.append(f'nothing found after {list(seq)} but the result is {text[:80]}')
                continue
            if hit[0] != seq[-1]:
                bad.append(f'{hit[0]} finds the name but the search goes on to {seq[-1]}')
            if ('result_of_' + seq[-1]) not in text and not (seq[-1] == 'get_by_id' and 'RefKind::Object' in text):
                bad.append(f'found by {seq[-1]} but the result is {text[:100]}')
        O._unsat([z3.Not(z3.Or(cover))] if cover else [z3.BoolVal(True)], bad, 'some combination has no returning path')
    except M.MirError as e:
        O._finish(ob, t0, ['MIR: ' + str(e)], unknown=True)
        ob['detail'] = 'MIR: ' + str(e)
        return [ob]
    O._finish(ob, t0, bad)
    return [ob]


def _canon(v, d=0):
    if d > 12:
        return '..'
    if isinstance(v, M.Ref):
        return '&' + _canon(v.target, d + 1)
    if isinstance(v, M.Call):
        return v.callee.split('::')[-1] + '(' + ', '.join(_canon(x, d + 1) for x in v.args) + ')'
    if isinstance(v, M.Opaque):
        return v.name
    if isinstance(v, M.Tup):
        return '(' + ', '.join(_canon(x, d + 1) for x in v.items) + ')'
    if isinstance(v, M.Adt):
        return v.path + '[' + ', '.join(_canon(x, d + 1) for x in v.fields) + ']'
    return str(v)


def replay_lookup_order(workdir):
    from ..tv import driver as D
    os.makedirs(workdir, exist_ok=True)
    failed = []
    cases = [('id-vs-property', 'QLabel { id: lab; onLinkActivated: buddy.setFocus() }\n  QLineEdit { id: buddy }', 'this->ui_->buddy->setFocus()'),
             ('id-vs-property-operand', 'QLineEdit { id: toolTip; text: "x" }\n  QLineEdit { id: dst; text: toolTip.text }', 'this->ui_->toolTip->text()'),
             ('id-vs-method', 'QPushButton { id: btn; onClicked: click.setFocus() }\n  QLineEdit { id: click }', 'this->ui_->click->setFocus()')]
    for name, body, want in cases:
        text = f'import qmluic.QtWidgets\nQWidget {{\n id: top\n QVBoxLayout {{\n  {body}\n }}\n}}\n'
        r = D.run_cli(C.build_native(), workdir, text, 'Lookup' + re.sub(r'\W', '', name.title()))
        if r.rc != 0 or not r.header or want not in r.header:
            failed.append({'probe': name, 'document': text, 'expected_in_header': want, 'rc': r.rc, 'stderr': r.stderr[:200]})
    with open(os.path.join(workdir, 'README.txt'), 'w') as f:
        f.write('qmluic generate-ui --foreign-types /repo/contrib/metatypes Lookup*.qml\n' + json.dumps(failed, indent=1) + '\n')
    return bool(failed), {'failed_probes': failed}


def _doc(eng, model, final, pattern):
    """the object sequence of a counterexample: [('id', text) | ('anon', prefix)], plus the predicted names"""
    if model is None:
        s = z3.Solver()
        s.add(*eng.assumptions())
        s.check()
        model = s.model()
    ev = lambda t: RPstr(model.eval(t, model_completion=True))
    seq = [('id', ev(eng.id_of[k])) if named else ('anon', ev(VN(eng.cls[k]))) for k, named in enumerate(pattern)]
    return {'objects': seq, 'names_predicted': [ev(v) if v is not None else None for v in final]}


def RPstr(v):
    from ..tv import replay as RP
    return RP.decode_z3_string(v.as_string())


# ------------------------------------------------------------------------------------------------ CLI replay
def py_variable_name_for_type(t):
    """reference of qtname::variable_name_for_type (used only to pick class names for a replay; the replay itself checks it)"""
    i = 1 if len(t) >= 2 and t[0] in 'QK' and t[1].isascii() and t[1].isalpha() else 0
    out = ''
    while i < len(t):
        c = t[i]
        out += c.lower() if c.isascii() else c
        i += 1
        if not ('A' <= c <= 'Z'):
            break
    return out + t[i:]


def class_for_prefix(p):
    for cand in (p[:1].upper() + p[1:], 'Q' + p[:1].upper() + p[1:]):
        if py_variable_name_for_type(cand) == p and re.fullmatch(r'[A-Z][A-Za-z0-9]*', cand):
            return cand
    return None


def replay_names(doc, workdir):
    """-> (reproduced, info): declares classes whose variable-name prefix is the model's, writes the model's object
    sequence as a document and runs the real CLI; reproduced iff the .ui carries a duplicated name or an object with an
    id is not named by it"""
    from ..tv import driver as D
    os.makedirs(workdir, exist_ok=True)
    classes, lines = [], ['import qmluic.QtWidgets', 'QWidget {', '    id: rootW_', '    QVBoxLayout {', '        id: rootL_']
    for kind, text in doc['objects']:
        if kind == 'id':
            lines.append(f'        QWidget {{ id: {text} }}')
        else:
            c = class_for_prefix(text)
            if c is None:
                return False, {'error': f'no class name for prefix {text!r}'}
            classes.append(c)
            lines.append(f'        {c} {{ }}')
    lines += ['    }', '}']
    meta = [{'classes': [{'className': c, 'qualifiedClassName': c, 'object': True, 'superClasses': [{'access': 'public', 'name': 'QWidget'}]}
                         for c in sorted(set(classes))], 'inputFile': 'c10probe.h', 'outputRevision': 68}]
    mp = os.path.join(workdir, 'c10_metatypes.json')
    with open(mp, 'w') as f:
        json.dump(meta, f)
    text = '\n'.join(lines) + '\n'
    r = D.run_cli(C.build_native(), workdir, text, 'C10Probe', extra_meta=[mp])
    info = {'document': text, 'classes': classes, 'rc': r.rc}
    if r.rc != 0 or r.ui is None:
        info['stderr'] = r.stderr[:400]
        return False, info
    names = re.findall(r'<(?:widget|layout|spacer|action)\b[^>]*\bname="([^"]*)"', r.ui)
    dup = sorted(set(n for n in names if names.count(n) > 1))
    lost = [t for k, t in doc['objects'] if k == 'id' and names.count(t) != 1]
    info.update(names_in_ui=names, duplicated=dup, ids_not_used_as_names=lost)
    with open(os.path.join(workdir, 'README.txt'), 'w') as f:
        f.write('qmluic generate-ui --foreign-types /repo/contrib/metatypes --foreign-types c10_metatypes.json C10Probe.qml\n'
                f'names in c10probe.ui: {names}\nduplicated: {dup}\nids that are not the name of exactly one object: {lost}\n')
    return bool(dup or lost), info


def patterns(T):
    import itertools
    return [p for n in range(1, T + 1) for p in itertools.product((False, True), repeat=n) if not all(p)]


def run(res, args):
    fns, consts = O.load()
    text = M.dump_mir()
    T = 4 if C.tier() == 'thorough' else 3
    for pat in patterns(T):
        obs = obligations(fns, consts, pat, text)
        shape = ''.join('I' if x else 'a' for x in pat)
        for ob in obs:
            ob['name'] += f'[{shape}]'

        def replay(ob, d):
            doc = ob.get('counterexample')
            if not doc:
                return False, {'error': 'no counterexample'}, {'site': 'ensure_object_names'}
            rep, info = replay_names(doc, d)
            kind = 'id not used verbatim' if info.get('ids_not_used_as_names') else 'names collide'
            return rep, info, {'site': 'ensure_object_names', 'kind': kind}
        O.merge(res, obs, res.coverage, replay, 'names')
    import itertools
    for n in (1, 2, 3):
        for pat in itertools.product((False, True), repeat=n):
            if not any(pat):
                continue

            def replay_dup(ob, d):
                rep, info = replay_duplicate_ids(d)
                return rep, info, {'site': 'update_id_map', 'probe': info['failed_probes'][0]['probe'] if info['failed_probes'] else None}
            obs = dup_obligations(fns, consts, pat)
            for ob in obs:
                ob['name'] += '[' + ''.join('I' if x else 'a' for x in pat) + ']'
            O.merge(res, obs, res.coverage, replay_dup, 'ids')
    def replay_ref(ob, d):
        rep, info = replay_refs(d, ob.get('counterexamples') or ())
        return rep, info, {'site': 'format_named_object_ref', 'probe': info['failed_probes'][0].get('missing', 'rejected') if info['failed_probes'] else None}
    O.merge(res, ref_obligations(fns, consts), res.coverage, replay_ref, 'refs')

    def replay_lookup(ob, d):
        rep, info = replay_lookup_order(d)
        return rep, info, {'site': 'ObjectContext::get_ref', 'probe': info['failed_probes'][0]['probe'] if info['failed_probes'] else None}
    O.merge(res, lookup_order_obligations(fns, consts), res.coverage, replay_lookup, 'lookup order')
    res.coverage['samples'] = res.coverage['samples'][:12] + res.coverage['samples'][-6:]
    res.assumptions += [
        'C10 engine C: library calls are models, not code: HashMap/HashSet as (key set, values, len) over SMT arrays, find_map = least index with Some, format!/Display as string concatenation / int.to.str, String conversions as identity, Iterator::filter/next as "nodes in order that satisfy the inlined closure"',
        'the id map holds exactly the ids of the objects that carry one (update_id_map; duplicate ids are assumed rejected before) ; prefixes range over [a-z][a-z0-9]{0,2}, ids over identifiers of <= 4 characters',
        'Outside the claim: reference resolution (addaction, buddy, ui_-><name>), reading the id from the syntax tree (object_id / to_str are models), that a pushed error makes the command fail (checked only by the replay probes), function names generated in uigen/binding.rs (C16)',
    ]
