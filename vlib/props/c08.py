"""C08 (partial): the iteration order of std::HashMap / HashSet cannot influence what the serialisation loops write.

Engine C on the MIR of every function in which a hash container is iterated on the way to the output (the .ui serialisers
of properties, gadgets, palette groups, layouts; the include list and the gadget-map function of the support header).
Each such function is executed symbolically with every hash container holding K entries with symbolic keys and values,
once per iteration order of every container; `Itertools::sorted_by_key / sorted` are modelled as sorting by an arbitrary
total order on the (inlined) key, all other calls are uninterpreted but recorded, in order, as canonical terms.  z3 decides
for every pair of feasible paths of two orders that the recorded call sequences coincide -- i.e. that the bytes written
cannot depend on the hash order.  A counterexample is replayed by running the real CLI repeatedly (fresh hash seeds) on a
document that exercises the site and comparing the output bytes."""
import hashlib, itertools, os, re, sys, time
import z3
from .. import common as C, mir as M
from . import mir_obligations as O

sys.setrecursionlimit(100000)
LEVEL = 'proof'


class Entry(M.Opaque):
    """one (key, value) entry of a hash container"""
    pass


class VecHandle:
    """a Vec built from hash-ordered items; its state (sorted?, items) lives in path.heap[name]"""
    def __init__(self, name):
        self.name = name


class TCall(M.Call):
    """uninterpreted call identified by its canonical term (so that two runs name the same value the same way)"""
    pass


def deref(v):
    while isinstance(v, M.Ref):
        v = v.target
    return v


def canon(v, depth=0):
    if depth > 40:
        return '...'
    if isinstance(v, M.Ref):
        return '&' + canon(v.target, depth + 1)
    if isinstance(v, TCall):
        return v.term
    if isinstance(v, M.Call):
        return f'{v.callee}#{v.seq}'
    if isinstance(v, M.Opaque):
        return v.name
    if isinstance(v, VecHandle):
        return v.name
    if isinstance(v, M.Tup):
        return '(' + ', '.join(canon(x, depth + 1) for x in v.items) + ')'
    if isinstance(v, M.Adt):
        if getattr(v, 'canon_as', None):
            return v.canon_as
        return v.path + '{' + ', '.join(canon(x, depth + 1) for x in v.fields) + '}'
    if isinstance(v, tuple):
        return repr(v)
    if z3.is_expr(v):
        return str(v)
    return repr(v)


class Engine:
    def __init__(self, fns, consts, K, orders):
        """orders: {container ordinal: permutation of range(K)}; containers are numbered in order of first iteration"""
        self.fns, self.consts, self.K, self.orders = fns, consts, K, orders
        self.seq = 0
        self.containers = {}          # canonical name of the container value -> ordinal
        self.models_used = set()
        self.encoded = set()
        self.sites = []

    def _next(self):
        self.seq += 1
        return self.seq

    def entries(self, ordinal):
        return [Entry(f'm{ordinal}e{i}', 'entry') for i in range(self.K)]

    def container_of(self, v, it):
        key = canon(deref(v))
        if key not in self.containers:
            self.containers[key] = len(self.containers)
        return self.containers[key]

    def hash_iter(self, v, it, kind, p):
        n = self.container_of(v, it)
        perm = self.orders.get(n, tuple(range(self.K)))
        es = self.entries(n)
        self.sites.append((it.fn.name, kind, n))
        self.models_used.add('HashMap/HashSet iteration: K entries with symbolic keys and values, in the order fixed for this run')
        return M.Adt('Seq', [self.item(es[i], kind) for i in perm])

    @staticmethod
    def item(e, kind):
        key, val = M.Opaque(e.name + '.key', 'key'), M.Opaque(e.name + '.value', 'value')
        if kind == 'set':
            return M.Ref(key)
        if kind == 'values':
            return M.Ref(val)
        if kind == 'keys':
            return M.Ref(key)
        return M.Tup([M.Ref(key), M.Ref(val)])

    def interp(self, fn, args):
        it = M.Interp(fn, self.consts, arg_values=args, call_model=self.call)
        it._next = self._next
        it.max_depth = 3000
        self.encoded.add(fn.name)
        return it

    def closure_fn(self, v):
        v = deref(v)
        nm = v.path if isinstance(v, M.Adt) else getattr(v, 'name', '')
        loc = re.search(r'closure@([^}]*)', nm or '')
        if not loc:
            raise M.MirError(f'not a closure: {v!r}')
        cands = [f for f in self.fns.values() if ('closure@' + loc.group(1) + '}') in f.param_types.get('_1', '')]
        if len(cands) != 1:
            raise M.MirError(f'{len(cands)} bodies for closure {loc.group(1)}')
        first = cands[0].param_types.get('_1', '')
        return cands[0], (M.Ref(v) if first.startswith('&') else v)

    def invoke_pure(self, clo, args, p):
        """runs a closure on a scratch copy of the path (its calls are not part of the output trace)"""
        cfn, env = self.closure_fn(clo)
        av = {'_1': env}
        for i, a in enumerate(args):
            av[f'_{i + 2}'] = a
        it = self.interp(cfn, av)
        q0 = M.Path()
        q0.pc, q0.heap = list(p.pc), dict(getattr(p, 'heap', {}))
        rets = [q for q in it.run(path=q0, max_paths=64) if q.end == 'return']
        return [(q.pc[len(p.pc):], q.ret) for q in rets]

    def call(self, c, it, p):
        name, a = c.callee, c.args
        last = name.split('::')[-1]
        used = self.models_used.add
        if not hasattr(p, 'heap'):
            p.heap = {}
        recv = deref(a[0]) if a else None
        is_hash = re.search(r'Hash(Map|Set)<|Hash(Map|Set)::|hash_map::|hash_set::', name) is not None
        if is_hash and last in ('iter', 'iter_mut', 'keys', 'values', 'values_mut', 'into_iter', 'drain', 'into_keys', 'into_values') \
                and not isinstance(recv, M.Adt):
            kind = 'set' if 'HashSet' in name or 'hash_set' in name else {'keys': 'keys', 'into_keys': 'keys', 'values': 'values', 'values_mut': 'values', 'into_values': 'values'}.get(last, 'map')
            return self.hash_iter(a[0], it, kind, p)
        if isinstance(recv, M.Adt) and recv.path in ('Seq', 'SortedSeq') and last == 'collect' and re.search(r'collect::<(?:std::vec::)?Vec<', getattr(c, 'raw', '')):
            used('collect into a Vec: the items keep their order; a later sort of that Vec is modelled like sorted_by_key')
            h = VecHandle(f'vec{self._next()}')
            p.heap[h.name] = (recv.path == 'SortedSeq', tuple(recv.fields))
            return h
        if isinstance(recv, VecHandle):
            is_sorted, items = p.heap[recv.name]
            if last in ('deref', 'deref_mut', 'as_slice', 'as_mut_slice', 'borrow', 'borrow_mut', 'as_ref', 'as_mut'):
                return a[0]
            if last in ('sort', 'sort_unstable', 'sort_by_key', 'sort_unstable_by_key', 'sort_by_cached_key', 'sort_by', 'sort_unstable_by'):
                used('slice::sort*: the items ordered by an arbitrary total order on the (inlined) key / on the items')
                keyclo = a[1] if len(a) > 1 and last.endswith('key') else None
                outs = []
                for pcs, _, seq in self.sort(M.Adt('Seq', list(items)), keyclo, p):
                    h1 = dict(p.heap)
                    h1[recv.name] = (True, tuple(seq.fields))
                    outs.append((pcs, h1, M.Tup([])))
                return M.Fork(outs)
            if last in ('iter', 'into_iter', 'iter_mut', 'drain'):
                return M.Adt('SortedSeq' if is_sorted else 'Seq', list(items))
            if last in ('len', 'is_empty'):
                a = [M.Adt('Set', sorted(items, key=canon))] + list(a[1:])
            else:
                a = [M.Adt('SortedSeq' if is_sorted else 'Seq', list(items))] + list(a[1:])
        if isinstance(recv, M.Adt) and recv.path == 'SortedSeq':
            # the order is fixed from here on: plain iteration is followed, any other adaptor is an ordinary (recorded) call
            if last in ('into_iter', 'iter', 'by_ref'):
                return recv
            if last == 'next':
                k = p.heap.get(id(recv), 0)
                p.heap[id(recv)] = k + 1
                return M.Adt('Option::Some', [recv.fields[k]]) if k < len(recv.fields) else M.Adt('Option::None', [])
        if isinstance(recv, M.Adt) and recv.path == 'Seq':
            if last in ('into_iter', 'iter', 'by_ref', 'cloned', 'copied', 'peekable', 'fuse'):
                return recv
            if last in ('sorted_by_key', 'sorted', 'sorted_unstable', 'sorted_unstable_by_key', 'sorted_by_cached_key'):
                used('Itertools::sorted_by_key / sorted: the items ordered by an arbitrary total order on the (inlined) key; distinct entries have distinct keys')
                return M.Fork(self.sort(recv, a[1] if len(a) > 1 else None, p))
            if last == 'filter':
                used('Iterator::filter: the (inlined) predicate decides per item; its result is a symbolic property of the item')
                return M.Fork(self.filter(recv, a[1], p))
            if last == 'next':
                k = p.heap.get(id(recv), 0)
                # the cursor is per Seq value; Seq values are immutable python objects shared by forks
                p.heap[id(recv)] = k + 1
                return M.Adt('Option::Some', [recv.fields[k]]) if k < len(recv.fields) else M.Adt('Option::None', [])
            raw = getattr(c, 'raw', '')
            if last in ('any', 'all', 'count', 'min', 'max', 'sum', 'product') or \
                    (last == 'collect' and re.search(r'collect::<(?:std::collections::)?(HashMap|HashSet|BTreeMap|BTreeSet)<', raw)):
                # consumers whose result does not depend on the order of the items: the items are passed as a set
                used('order-insensitive consumers (any / all / count / min / max / collect into a map or set) see the items as a set')
                a = [M.Adt('Set', sorted(recv.fields, key=canon))] + list(a[1:])
            # any other adaptor (map, filter_map, extend, collect into a Vec, find, ...) is an ordinary recorded call that
            # sees the items IN ORDER: if nothing sorts them first, the two runs record different terms
        if name.endswith('as Iterator>::next') and not (isinstance(recv, M.Adt) and recv.path in ('Seq', 'SortedSeq')):
            # a loop over something that is not a hash container (Vec, slice, ...): one iteration, then the end
            used('other loops (Vec / slice iteration): unrolled once (one opaque item, then None)')
            key = '#other:' + canon(recv)
            k = p.heap.get(key, 0)
            p.heap[key] = k + 1
            if k >= 1:
                return M.Adt('Option::None', [])
            return M.Adt('Option::Some', [M.Opaque(f'item[{canon(recv)}]', 'item')])
        if name.endswith('as Try>::branch'):
            used('io errors are not followed: Try::branch continues')
            return M.Adt('ControlFlow::Continue', [M.Tup([])])
        # everything else: an uninterpreted call, recorded as a canonical term
        t = TCall(c.callee, a, c.seq)
        t.term = c.callee.split('::<')[0] + '(' + ', '.join(canon(x) for x in a) + ')'
        t.name = 'r:' + hashlib.sha1(t.term.encode()).hexdigest()[:12]
        p.heap['#trace'] = p.heap.get('#trace', ()) + (t.term,)
        return t

    def rank(self, keyval):
        return z3.Int('rank[' + canon(keyval) + ']')

    def sort(self, seq, keyclo, p):
        items = list(seq.fields)
        keyed = []
        for x in items:
            if keyclo is None:
                keyed.append((x, deref(x)))
            else:
                outs = self.invoke_pure(keyclo, [M.Ref(x)], p)
                if len(outs) != 1:
                    raise M.MirError('sort key closure forks')
                keyed.append((x, deref(outs[0][1])))
        outcomes = []
        for perm in itertools.permutations(range(len(keyed))):
            pcs = [self.rank(keyed[perm[i]][1]) < self.rank(keyed[perm[i + 1]][1]) for i in range(len(perm) - 1)]
            outcomes.append((pcs, None, M.Adt('SortedSeq', [keyed[i][0] for i in perm])))
        return outcomes

    def as_bool(self, r):
        r = deref(r)
        if z3.is_expr(r):
            return r
        if isinstance(r, M.Adt) and r.path == 'op:Not':
            return z3.Not(self.as_bool(r.fields[0]))
        n = getattr(r, 'name', None)
        if n is None:
            raise M.MirError('predicate result ' + repr(r)[:80])
        return z3.Int(n + '.int') != 0

    def filter(self, seq, clo, p):
        items = list(seq.fields)
        conds = []
        for x in items:
            outs = self.invoke_pure(clo, [M.Ref(x)], p)
            c = None
            for pcs, ret in outs:
                r = self.as_bool(ret)
                term = z3.And(pcs + [r]) if pcs else r
                c = term if c is None else z3.Or(c, term)
            conds.append(c if c is not None else z3.BoolVal(False))
        outcomes = []
        for keep in itertools.product((True, False), repeat=len(items)):
            pcs = [c if k else z3.Not(c) for c, k in zip(conds, keep)]
            outcomes.append((pcs, None, M.Adt('Seq', [x for x, k in zip(items, keep) if k])))
        return outcomes

    def run(self, fn):
        it = self.interp(fn, {})
        p0 = M.Path()
        p0.heap = {}
        paths = it.run(path=p0, max_paths=4000)
        return [q for q in paths if q.end == 'return']


M.VARIANT_INDEX.setdefault('Continue', 0)
M.VARIANT_INDEX.setdefault('Break', 1)

SITES = [
    # (obligation name, regex of the MIR function, what it writes, CLI replay document)
    ('properties', r'^serialize_properties_to_xml$', '<property>/<attribute> elements of an object'),
    ('gadget', r'^gadget::<impl at src/uigen/gadget\.rs:\d+:\d+: \d+:12>::serialize_to_xml_as$', 'attributes and members of a gadget value (<font>, <sizepolicy>, <rect>, ...)'),
    ('palette-group', r'^gadget::<impl at src/uigen/gadget\.rs:\d+:\d+: \d+:23>::serialize_to_xml_as$', '<colorrole> elements of a palette colour group'),
    ('spacer', r'^layout::<impl at src/uigen/layout\.rs:\d+:\d+: \d+:16>::serialize_to_xml\(_1: &layout::SpacerItem', 'the <property> elements of a <spacer>'),
    ('support-code', r'^binding::<impl at src/uigen/binding\.rs:\d+:\d+: \d+:19>::build$', 'the binding and callback functions of the support header (order of the generated members)'),
    ('includes', r'^binding::<impl at src/uigen/binding\.rs:\d+:\d+: \d+:19>::write_header$', 'the #include list of the support header'),
    ('gadget-map-function', r'^binding::<impl at src/uigen/binding\.rs:\d+:\d+: \d+:30>::build$', 'update function of a gadget-typed property (one member function per sub-property)'),
]


def find_site(fns, fre):
    hits = [f for n, f in fns.items() if re.search(fre, n) or re.search(fre, f.header[3:])]
    if len(hits) != 1:
        raise M.MirError(f'{len(hits)} MIR functions match /{fre}/')
    return hits[0]


def literals(pc):
    """{atom text: polarity} of the top-level literals of a path condition (for a cheap syntactic conflict test)"""
    out = {}
    for c in pc:
        neg = False
        while z3.is_not(c):
            c, neg = c.arg(0), not neg
        out[str(c)] = not neg
    return out


def obligation(fns, consts, site, K):
    name, fre, what = site
    ob = O._ob(f'c08_mir_hash_order_{name}[K={K}]', fre, f'every hash container iterated by the function holds {K} entries with symbolic keys and values; every iteration order of every container; io errors not followed',
               f'the sequence of all calls made while writing {what} (callee and arguments, as terms) is the same for every iteration order of the hash containers')
    t0 = time.time()
    bad = []
    try:
        fn = find_site(fns, fre)
        ob['function'] = fn.name + ' (' + name + ')'
        base = Engine(fns, consts, K, {})
        pa = base.run(fn)
        ncont = len(base.containers)
        if ncont == 0:
            raise M.MirError('no hash container is iterated (the site list is stale)')
        ob['containers'] = ncont
        ob['paths'] = len(pa)
        ident = tuple(range(K))
        compared = 0
        for n in range(ncont):
            for perm in itertools.permutations(range(K)):
                if perm == ident:
                    continue
                eng = Engine(fns, consts, K, {n: perm})
                pb = eng.run(fn)
                lits_b = [literals(q.pc) for q in pb]
                for qa in pa:
                    ta = qa.heap.get('#trace', ())
                    la = literals(qa.pc)
                    for qb, lb in zip(pb, lits_b):
                        tb = qb.heap.get('#trace', ())
                        if ta == tb:
                            continue
                        if any(lb.get(k, v) != v for k, v in la.items()):
                            continue            # the two paths contradict each other on a literal
                        r = M.check(qa.pc + qb.pc, 20000)
                        compared += 1
                        if r == 'unsat':
                            continue
                        if r == 'unknown':
                            bad.append('UNKNOWN: path pair')
                            continue
                        k = next((i for i, (x, y) in enumerate(zip(ta, tb)) if x != y), min(len(ta), len(tb)))
                        bad.append(f'container #{n} iterated in order {perm} instead of {ident}: call #{k} differs: '
                                   f'{(ta[k] if k < len(ta) else "<end>")[:160]}  vs  {(tb[k] if k < len(tb) else "<end>")[:160]}')
                        break
                    if bad:
                        break
                if bad:
                    break
            if bad:
                break
        ob['path_pairs_decided'] = compared
        ob['library_models'] = sorted(base.models_used)
        ob['functions_inlined'] = sorted(base.encoded)
    except M.MirError as e:
        O._finish(ob, t0, ['MIR: ' + str(e)], unknown=True)
        ob['detail'] = 'MIR: ' + str(e)
        return ob
    O._finish(ob, t0, bad, unknown=bool(bad) and all(b.startswith('UNKNOWN') for b in bad))
    return ob


def run(res, args):
    fns, consts = O.load()
    Ks = (2, 3) if C.tier() == 'thorough' else (2,)
    for K in Ks:
        # Gadget::serialize_to_xml_as has 272 paths at K=2 and exceeds the path budget at K=3 (measured): K=2 only
        obs = [obligation(fns, consts, s, K) for s in SITES if not (K > 2 and s[0] == 'gadget')]

        def replay(ob, d):
            from . import c08_replay
            rep, info = c08_replay.replay(ob, d)
            return rep, info, {'site': ob['function']}
        O.merge(res, obs, res.coverage, replay, 'hash order')
    from . import c08_palette

    def replay_pal(ob, d):
        rep, info = c08_palette.replay(ob, d)
        return rep, info, {'site': 'make_palette_properties'}
    O.merge(res, [c08_palette.obligation(fns, consts)], res.coverage, replay_pal, 'palette builder')
    from . import c08_bodies

    def replay_bod(ob, d):
        rep, info = c08_bodies.replay(ob, d)
        return rep, info, {'site': 'PropertyCodeBodies::next'}
    O.merge(res, [c08_bodies.obligation(fns, consts)], res.coverage, replay_bod, 'code body iterator')
    # outputs must not depend on what an earlier run left on disk (shared with C15)
    from . import c15

    def replay_c15(ob, d):
        rep, info = c15.replay(d)
        return rep, info, {'site': 'generate_ui_file', 'probe': info['failed_probes'][0]['probe'] if info['failed_probes'] else None}
    obx = c15.p7_every_output_considered(M.parse_functions(M.dump_mir_bin()), consts)
    obx['name'] = obx['name'].replace('c15_', 'c08_')
    O.merge(res, [obx], res.coverage, replay_c15, 'earlier runs')
    res.assumptions += [
        'C08 engine C: calls other than the iterator plumbing are uninterpreted and deterministic functions of their arguments; sorted_by_key sorts by a total order on keys, and the keys of one container are pairwise distinct',
        'Outside the claim: hash containers consumed by map/collect/find/any (listed per function as inconclusive if they appear on a path to the output), the order of diagnostics, process-to-process state, "rewritten only when bytes differ" (file system)',
    ]
