"""C01 Generated binding code computes the value of its source expression.
(b) engine B: for every accepted dynamic binding of the corpus, for all object states, the emitted eval*()
    returns the value the source denotes (z3, two stages, replay);
(a) engine A: every translation-time fold of tir/ceval.rs equals the mathematical / C-like value (Kani)."""
import random
from .. import common as C, kani
from ..tv import suite as S, driver as D, gen as G, lang as L
from . import ceval_specs as CE

LEVEL = 'translation_validation'


def expr_programs(tier, rng):
    progs = []
    step1, step2 = (1, 1) if tier == 'thorough' else (4, 8)
    for ty in G.TYPES + ['enum:Mode', 'ptr:VNode', 'QStringList']:
        for i, e in enumerate(G.enum_depth1(ty)):
            if i % step1 == 0:
                progs.append(D.Program('binding', ty, e, tag='expr-depth1'))
        for i, e in enumerate(G.enum_pairs(ty)):
            if i % step2 == (C.seed() % step2):
                progs.append(D.Program('binding', ty, e, tag='expr-operator-pairs'))
    n = 1500 if tier == 'thorough' else 150
    for _ in range(n):
        ty = rng.choice(G.TYPES + ['enum:Mode', 'ptr:VNode'])
        progs.append(D.Program('binding', ty, G.rand_expr(rng, ty, rng.choice([3, 4, 5])), tag='expr-random'))
    return [p for p in progs if L.has_dynamic(p.body)]


def stmt_programs(tier, rng):
    progs = []
    for ss in G.switch_skeletons():
        progs.append(D.Program('binding', 'int', ss, tag='switch-skeleton'))
    if tier == 'thorough':
        for ss in G.switch_skeletons(2, G.P('a', 'sval')):
            # same skeletons over a string discriminant
            ss = [s if s[0] != 'switch' else ('switch', s[1], [(None if c is None else ('lit', 'QString', 'k%d' % c[2]), b) for c, b in s[2]]) for s in ss]
            progs.append(D.Program('binding', 'int', ss, tag='switch-skeleton-string'))
    for i, ss in enumerate(G.switch_branching_labels()):
        if tier == 'thorough' or i % 3 == C.seed() % 3:
            progs.append(D.Program('binding', 'int', ss, tag='switch-branching-labels'))
    for ss in G.nestings(3 if tier == 'thorough' else 2):
        progs.append(D.Program('binding', 'int', ss, tag='nesting'))
    n = 1500 if tier == 'thorough' else 150
    for _ in range(n):
        ty = rng.choice(G.TYPES + ['enum:Mode', 'ptr:VNode'])
        g = G.StmtGen(rng)
        progs.append(D.Program('binding', ty, g.stmts(ty, {}, 2 if rng.random() < 0.8 else 3, True), tag='stmt-random'))
    progs += scoping_programs()
    return progs


def scoping_programs():
    """let/const block scoping incl. shadowing inside if, block and switch clauses"""
    I = lambda v: ('lit', 'int', v)
    x = ('local', 'x')
    out = []
    inner = [[('let', 'let', 'x', None, I(2))], [('let', 'const', 'x', None, G.P('b', 'ival'))],
             [('let', 'let', 'x', 'int', None)], [('let', 'let', 'x', None, I(2)), ('assign', 'x', I(3))]]
    for body in inner:
        out.append([('let', 'let', 'x', None, I(1)), ('if', G.P('a', 'flag'), body, None), ('return', x)])
        out.append([('let', 'let', 'x', None, I(1)), ('block', body), ('return', x)])
        out.append([('let', 'let', 'x', None, I(1)), ('switch', G.P('a', 'ival'), [(I(1), body + [('break',)])]), ('return', x)])
        out.append([('let', 'let', 'x', None, I(1)), ('switch', G.P('a', 'ival'), [(I(1), body), (None, [('assign', 'x', I(5))])]), ('return', x)])
        out.append([('let', 'let', 'x', None, I(1)), ('if', G.P('a', 'flag'), [('assign', 'x', I(7)), ('block', body)], body), ('return', x)])
    # assignment to the outer variable from inner scopes must persist
    out.append([('let', 'let', 'x', None, I(1)), ('if', G.P('a', 'flag'), [('assign', 'x', I(2))], None), ('block', [('assign', 'x', ('bin', '+', x, I(10)))]), ('return', x)])
    return [D.Program('binding', 'int', ss, tag='scoping') for ss in out]


def run(res, args):
    tier = C.tier()
    rng = random.Random(C.seed())
    su = S.Suite(res, 'c01')
    su.run(expr_programs(tier, rng), 'value', D.value_query, S.replay_value, batch=40)
    su.run(stmt_programs(tier, rng), 'value', D.value_query, S.replay_value, batch=30)
    su.finish({'bounds': 'expressions: all depth-1 over the full leaf alphabet and all operator pairs (quick: every 4th / 8th), random depth<=5; '
                         'statements: all switch skeletons <=3 cases, all nestings of 8 branching constructs to depth %d, seeded random blocks; '
                         'int literals |v|<=7, lists <=3 elements, pointers over {null,a,b,c,owner}; z3 timeout 20 s/query' % (3 if tier == 'thorough' else 2),
               'enumeration_note': 'the quantifier over object states is decided by z3 per emitted function; the quantifier over programs is bounded enumeration + seed (not a proof about the compiler)'})
    # (a) folding kernels
    kani.check_property(res, 'c01', CE.FRAG, CE.FOLD, into='kani_constant_folding')
    from . import mir_obligations as O
    fns, consts = O.load()

    def replay(ob, d):
        rep, info = O.replay_ceval(d)
        return rep, info, {'site': 'eval_binary_arith_expression dispatch', 'probe': info['failed_probes'][0]['expression'] if info['failed_probes'] else None}
    O.merge(res, O.ceval_divrem(fns, consts), res.coverage.setdefault('mir_fold_dispatch', {}), replay, 'ceval')
    res.assumptions += [
        'reference semantics = vlib/tv/ref.py written from docs/language.md (C-like typing, integer division, short-circuit, fall-through, block scoping, completion value of a trailing expression statement)',
        'primitives (what + means on two 32-bit ints and when it is undefined) are shared by both encodings; which primitive is applied to which operand, conversions and control flow are encoded independently',
        'library functions qsTr/QString::arg are uninterpreted (equal arguments => equal results); Math.min/max on doubles only where ordered and not +-0',
        'Outside: gadget-map bindings, QVariant casts, subscript assignment, programs outside the corpus; the mock Qt is used for replay only',
    ]
