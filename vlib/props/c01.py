"""C01 Generated binding code computes the value of its source expression.
(b) engine B: for every accepted dynamic binding of the corpus, for all object states, the emitted eval*()
    returns the value the source denotes (z3, two stages, replay);
(a) engine A: every translation-time fold of tir/ceval.rs equals the mathematical / C-like value (Kani)."""
import random
from .. import common as C, kani
from ..tv import suite as S, driver as D, gen as G, lang as L
from . import ceval_specs as CE

LEVEL = 'translation_validation'


def expr_programs(tier, rng):
    progs = []
    step1, step2 = (1, 1) if tier == 'thorough' else (4, 8)
    for ty in G.TYPES + ['enum:Mode', 'ptr:VNode', 'QStringList']:
        for i, e in enumerate(G.enum_depth1(ty)):
            if i % step1 == 0:
                progs.append(D.Program('binding', ty, e, tag='expr-depth1'))
        for i, e in enumerate(G.enum_pairs(ty)):
            if i % step2 == (C.seed() % step2):
                progs.append(D.Program('binding', ty, e, tag='expr-operator-pairs'))
    n = 1500 if tier == 'thorough' else 150
    for _ in range(n):
        ty = rng.choice(G.TYPES + ['enum:Mode', 'ptr:VNode'])
        progs.append(D.Program('binding', ty, G.rand_expr(rng, ty, rng.choice([3, 4, 5])), tag='expr-random'))
    # the same random and operator-pair expressions printed with the parentheses JavaScript needs and no others, so that
    # precedence / associativity are decided by the real parser; every second one uses === / !==
    extra = []
    for i, p in enumerate(progs):
        if p.tag in ('expr-random', 'expr-operator-pairs') and (tier == 'thorough' or i % 2 == 0):
            q = D.Program('binding', p.ty, p.body, tag='expr-minimal-parens')
            q.printer = (lambda e: L.pp_min(e, 1)) if i % 4 < 2 else (lambda e: L.pp_min(e, 0))
            extra.append(q)
    progs += extra
    return [p for p in progs if L.has_dynamic(p.body)]


def literal_programs():
    """literal spellings next to a run-time operand: the decoded value (astutil) must survive IR and C++ printing.
    Reference values are written independently (Python literals)."""
    R = lambda ty, src, v: ('rawlit', ty, src, v)
    out = []
    doubles = [('0.1', 0.1), ('1e3', 1e3), ('2.5e-3', 2.5e-3), ('123456789.125', 123456789.125), ('1e300', 1e300), ('4.9e-324', 4.9e-324),
               ('1.7976931348623157e308', 1.7976931348623157e308), ('0.30000000000000004', 0.30000000000000004), ('1e21', 1e21), ('1e-7', 1e-7),
               ('100.0', 100.0), ('.5', 0.5), ('5.', 5.0), ('0.0', 0.0), ('1e0', 1.0), ('3.141592653589793', 3.141592653589793), ('9007199254740993.0', 9007199254740992.0)]
    for src, v in doubles:
        out.append(D.Program('binding', 'double', ('bin', '+', G.P('a', 'dval'), R('double', src, v)), tag='literal-spelling'))
        out.append(D.Program('binding', 'bool', ('bin', '<', G.P('a', 'dval'), R('double', src, v)), tag='literal-spelling'))
    ints = [('0x10', 16), ('0XfF', 255), ('0b101', 5), ('0o17', 15), ('017', 15), ('08', 8), ('1_000', 1000), ('0xff_00', 65280), ('2147483647', 2147483647),
            ('65535', 65535), ('0x7fffffff', 2147483647), ('0b1111_0000', 240), ('1000000', 1000000)]
    for src, v in ints:
        out.append(D.Program('binding', 'int', ('bin', '&', G.P('a', 'ival'), R('int', src, v)), tag='literal-spelling'))
        out.append(D.Program('binding', 'uint', ('bin', '^', G.P('a', 'uval'), R('int', src, v)), tag='literal-spelling'))
        out.append(D.Program('binding', 'bool', ('bin', '==', G.P('a', 'ival'), R('int', src, v)), tag='literal-spelling'))
    strs = [('"a\\"b"', 'a"b'), ('"back\\\\slash"', 'back\\slash'), ('"tab\\tx"', 'tab\tx'), ('"nl\\nx"', 'nl\nx'), ('"\u00e9t\u00e9"', '\u00e9t\u00e9'),
            ('"\\u00e9"', '\u00e9'), ('"\\x41\\x7e"', 'A~'), ('"\\u{1F600}"', '\U0001F600'), ("'it\\'s'", "it's"), ("'single'", 'single'), ('"\\0"', '\0'),
            ('"\\v\\f\\b\\r"', '\x0b\x0c\x08\r'), ('"%1 %2"', '%1 %2'), ('"\u65e5\u672c"', '\u65e5\u672c'), ('""', '')]
    for src, v in strs:
        out.append(D.Program('binding', 'QString', ('bin', '+', G.P('a', 'sval'), R('QString', src, v)), tag='literal-spelling'))
        out.append(D.Program('binding', 'bool', ('bin', '==', R('QString', src, v), G.P('a', 'sval')), tag='literal-spelling'))
        out.append(D.Program('binding', 'QString', ('bin', '+', ('bin', '+', R('QString', src, v), R('QString', '"|"', '|')), G.P('a', 'sval')), tag='literal-spelling'))
    return out


def stmt_programs(tier, rng):
    progs = []
    for ss in G.switch_skeletons():
        progs.append(D.Program('binding', 'int', ss, tag='switch-skeleton'))
    if tier == 'thorough':
        for ss in G.switch_skeletons(2, G.P('a', 'sval')):
            # same skeletons over a string discriminant
            ss = [s if s[0] != 'switch' else ('switch', s[1], [(None if c is None else ('lit', 'QString', 'k%d' % c[2]), b) for c, b in s[2]]) for s in ss]
            progs.append(D.Program('binding', 'int', ss, tag='switch-skeleton-string'))
    for i, ss in enumerate(G.switch_branching_labels()):
        if tier == 'thorough' or i % 3 == C.seed() % 3:
            progs.append(D.Program('binding', 'int', ss, tag='switch-branching-labels'))
    for ss in G.nestings(3 if tier == 'thorough' else 2):
        progs.append(D.Program('binding', 'int', ss, tag='nesting'))
    for ss in G.completion_value_programs(3 if tier == 'thorough' else 2):
        progs.append(D.Program('binding', 'QString', ss, tag='completion-value'))
    for ty, ss in G.dynamic_then_constant_tail():
        progs.append(D.Program('binding', ty, ss, tag='dynamic-then-constant'))
    n = 1500 if tier == 'thorough' else 150
    for _ in range(n):
        ty = rng.choice(G.TYPES + ['enum:Mode', 'ptr:VNode'])
        g = G.StmtGen(rng)
        progs.append(D.Program('binding', ty, g.stmts(ty, {}, 2 if rng.random() < 0.8 else 3, True), tag='stmt-random'))
    progs += scoping_programs()
    return progs


def scoping_programs():
    """let/const block scoping incl. shadowing inside if, block and switch clauses"""
    I = lambda v: ('lit', 'int', v)
    x = ('local', 'x')
    out = []
    inner = [[('let', 'let', 'x', None, I(2))], [('let', 'const', 'x', None, G.P('b', 'ival'))],
             [('let', 'let', 'x', 'int', None)], [('let', 'let', 'x', None, I(2)), ('assign', 'x', I(3))]]
    for body in inner:
        out.append([('let', 'let', 'x', None, I(1)), ('if', G.P('a', 'flag'), body, None), ('return', x)])
        out.append([('let', 'let', 'x', None, I(1)), ('block', body), ('return', x)])
        out.append([('let', 'let', 'x', None, I(1)), ('switch', G.P('a', 'ival'), [(I(1), body + [('break',)])]), ('return', x)])
        out.append([('let', 'let', 'x', None, I(1)), ('switch', G.P('a', 'ival'), [(I(1), body), (None, [('assign', 'x', I(5))])]), ('return', x)])
        out.append([('let', 'let', 'x', None, I(1)), ('if', G.P('a', 'flag'), [('assign', 'x', I(7)), ('block', body)], body), ('return', x)])
    # assignment to the outer variable from inner scopes must persist
    out.append([('let', 'let', 'x', None, I(1)), ('if', G.P('a', 'flag'), [('assign', 'x', I(2))], None), ('block', [('assign', 'x', ('bin', '+', x, I(10)))]), ('return', x)])
    return [D.Program('binding', 'int', ss, tag='scoping') for ss in out]


def run(res, args):
    tier = C.tier()
    rng = random.Random(C.seed())
    su = S.Suite(res, 'c01')
    su.run(expr_programs(tier, rng) + literal_programs(), 'value', D.value_query, S.replay_value, batch=40)
    su.run(stmt_programs(tier, rng), 'value', D.value_query, S.replay_value, batch=30)
    su.finish({'bounds': 'expressions: all depth-1 over the full leaf alphabet and all operator pairs (quick: every 4th / 8th), random depth<=5; '
                         'statements: all switch skeletons <=3 cases, all nestings of 8 branching constructs to depth %d, seeded random blocks; '
                         'int literals |v|<=7, lists <=3 elements, pointers over {null,a,b,c,owner}; z3 timeout 20 s/query' % (3 if tier == 'thorough' else 2),
               'enumeration_note': 'the quantifier over object states is decided by z3 per emitted function; the quantifier over programs is bounded enumeration + seed (not a proof about the compiler)'})
    # (a) folding kernels
    kani.check_property(res, 'c01', CE.FRAG, CE.FOLD, into='kani_constant_folding')
    from . import mir_obligations as O
    fns, consts = O.load()

    def replay(ob, d):
        rep, info = O.replay_ceval(d)
        return rep, info, {'site': 'eval_binary_arith_expression dispatch', 'probe': info['failed_probes'][0]['expression'] if info['failed_probes'] else None}
    O.merge(res, O.ceval_divrem(fns, consts), res.coverage.setdefault('mir_fold_dispatch', {}), replay, 'ceval')
    res.assumptions += [
        'reference semantics = vlib/tv/ref.py written from docs/language.md (C-like typing, integer division, short-circuit, fall-through, block scoping, completion value of a trailing expression statement)',
        'primitives (what + means on two 32-bit ints and when it is undefined) are shared by both encodings; which primitive is applied to which operand, conversions and control flow are encoded independently',
        'library functions qsTr/QString::arg are uninterpreted (equal arguments => equal results); Math.min/max on doubles only where ordered and not +-0',
        'Outside: gadget-map bindings, QVariant casts, subscript assignment, programs outside the corpus; the mock Qt is used for replay only',
    ]
