"""C14 (partial): the dynamic-binding mode changes only the support code and its diagnostics.

Engine C on the MIR: (1) a scan of the whole crate's MIR: the mode (a value of type DynamicBindingHandling) is inspected in
exactly one place, the `match` of uigen::build (so nothing that builds the form can depend on it); (2) uigen::build is
executed symbolically once per mode (calls uninterpreted and recorded as canonical terms, `?` outcomes symbolic, loops
unrolled once): for every pair of modes and every pair of jointly feasible paths (z3) the returned form is the same term,
the function gives up (None) in the same cases, support code is built in generate mode only, every diagnostic pushed in omit
mode is pushed in generate mode, and reject mode reports every dynamic property and every callback it iterates over;
(3) the predicate that selects "dynamic" properties is the same term in reject mode and in UiSupportCode::build."""
import itertools, json, os, re, time
import z3
from .. import common as C, mir as M
from . import mir_obligations as O, c08
from .c08_palette import enum_variants

LEVEL = 'proof'
MODES = ['Omit', 'Generate', 'Reject']


def mode_scan(fns, text):
    ob = O._ob('c14_mir_mode_read_once', 'every function of the crate (MIR scan)', 'all MIR bodies of the lib crate',
               'a DynamicBindingHandling value is inspected (discriminant / comparison) only by the match in uigen::build; elsewhere it is only stored, copied or printed (derived impls, BuildContext::prepare)')
    t0 = time.time()
    bad, readers = [], []
    for name, fn in fns.items():
        body = '\n'.join(l for ls in fn.blocks.values() for l in ls)
        if re.search(r'discriminant\(.*DynamicBindingHandling\)\);', body) or re.search(r'DynamicBindingHandling as PartialEq>::(eq|ne)\(', body):
            readers.append(name)
    allowed = [n for n in readers if n == 'uigen::build' or re.search(r'context::<impl at src/uigen/context\.rs:\d+:\d+: \d+:\d+>::(clone|fmt|eq|ne|hash|assert_fields_are_eq)$', n)]
    extra = [n for n in readers if n not in allowed]
    if 'uigen::build' not in readers:
        bad.append('uigen::build does not inspect the mode (the site list is stale)')
    for n in extra:
        bad.append(f'the mode is also inspected by {n}')
    ob['readers'] = readers
    return O._finish(ob, t0, bad)


class ModeEngine(c08.Engine):
    def __init__(self, fns, consts, mode, nfields, mode_field):
        super().__init__(fns, consts, 1, {})
        self.mode, self.nfields, self.mode_field = mode, nfields, mode_field

    def ctx(self):
        fields = [M.Opaque(f'base_ctx.{i}') for i in range(self.nfields)]
        fields[self.mode_field] = M.Adt('DynamicBindingHandling::' + self.mode, [])
        # the context object carries the mode; terms are compared modulo that field (obligation 1 shows nobody else reads it)
        fields[self.mode_field].canon_as = 'DynamicBindingHandling::<mode>'
        return M.Ref(M.Adt('BuildContext', fields))

    def call(self, c, it, p):
        # hash containers are irrelevant here: iterate everything as an ordinary bounded loop
        name = c.callee
        if not hasattr(p, 'heap'):
            p.heap = {}
        recv = c08.deref(c.args[0]) if c.args else None
        if name.endswith('as Iterator>::next'):
            key = '#other:' + c08.canon(recv)
            k = p.heap.get(key, 0)
            p.heap[key] = k + 1
            if k >= 1:
                return M.Adt('Option::None', [])
            return M.Adt('Option::Some', [M.Opaque(f'item[{c08.canon(recv)}]', 'item')])
        t = c08.TCall(c.callee, c.args, c.seq)
        t.term = c.callee.split('::<')[0] + '(' + ', '.join(c08.canon(x) for x in c.args) + ')'
        import hashlib
        t.name = 'r:' + hashlib.sha1(t.term.encode()).hexdigest()[:12]
        p.heap['#trace'] = p.heap.get('#trace', ()) + (t.term,)
        return t

    def run_build(self, fn):
        it = self.interp(fn, {'_1': self.ctx()})
        p0 = M.Path()
        p0.heap = {}
        return [q for q in it.run(path=p0, max_paths=4000) if q.end == 'return']


def split_ret(q):
    """-> ('none',) | ('some', form term, support term)"""
    r = q.ret
    if isinstance(r, M.Adt) and r.path.endswith('None'):
        return ('none',)
    if isinstance(r, M.Call) and r.callee.endswith('from_residual'):
        return ('none',)            # the `?` operator on an Option: gives up with None
    if isinstance(r, M.Adt) and r.path.endswith('Some') and isinstance(r.fields[0], M.Tup):
        f, s = r.fields[0].items
        return ('some', c08.canon(f), c08.canon(s))
    raise M.MirError('unexpected return value ' + c08.canon(r)[:80])


def build_obligations(fns, consts):
    ob = O._ob('c14_mir_build_per_mode', 'uigen::build (+ its closures where called directly)', 'the three modes; every outcome of the fallible steps symbolic; each loop unrolled once over an opaque item',
               'same form term and same give-up cases in all modes; UiSupportCode::build in generate mode only; omit-mode diagnostics are a subsequence of generate-mode diagnostics; '
               'reject mode pushes an error for the dynamic property and for the callback it iterates over')
    t0 = time.time()
    bad = []
    try:
        fn = M.find_fn(fns, r'^uigen::build$')
        fields = O.struct_fields('lib/src/uigen/context.rs', 'BuildContext')
        mf = fields.index('dynamic_binding_handling')
        for i, v in enumerate(enum_variants('lib/src/uigen/context.rs', 'DynamicBindingHandling')):
            M.VARIANT_INDEX[v] = i
        M.ENUM_TYPES.add('DynamicBindingHandling')
        runs = {}
        for m in MODES:
            eng = ModeEngine(fns, consts, m, len(fields), mf)
            runs[m] = eng.run_build(fn)
            if not runs[m]:
                raise M.MirError('no returning path in mode ' + m)
        pushes = lambda q: [t for t in q.heap.get('#trace', ()) if t.startswith('Diagnostics::push')]
        decided = 0
        for ma, mb in itertools.combinations(MODES, 2):
            la = [c08.literals(q.pc) for q in runs[ma]]
            for qa, lita in zip(runs[ma], la):
                ra = split_ret(qa)
                for qb in runs[mb]:
                    litb = c08.literals(qb.pc)
                    if any(litb.get(k, v) != v for k, v in lita.items()):
                        continue
                    if M.check(qa.pc + qb.pc, 20000) == 'unsat':
                        continue
                    decided += 1
                    rb = split_ret(qb)
                    if ra[0] != rb[0]:
                        bad.append(f'{ma} gives {ra[0]} where {mb} gives {rb[0]}')
                    elif ra[0] == 'some' and ra[1] != rb[1]:
                        bad.append(f'the form differs between {ma} and {mb}: {ra[1][:120]} vs {rb[1][:120]}')
                    for m_, r_ in ((ma, ra), (mb, rb)):
                        if r_[0] == 'some':
                            has = 'UiSupportCode::build' in r_[2]
                            if has != (m_ == 'Generate'):
                                bad.append(f'mode {m_}: support code is {"" if has else "not "}built ({r_[2][:80]})')
                    if {ma, mb} == {'Omit', 'Generate'}:
                        po, pg = (pushes(qa), pushes(qb)) if ma == 'Omit' else (pushes(qb), pushes(qa))
                        itg = iter(pg)
                        if not all(any(x == y for y in itg) for x in po):
                            bad.append('a diagnostic pushed in omit mode is not pushed in generate mode')
                if len(bad) > 6:
                    break
        # reject mode: beyond what omit mode reports, an error for the (filtered) dynamic property and for the callback
        omit_pushes = [set(pushes(q)) for q in runs['Omit'] if split_ret(q)[0] == 'some']
        common = set.intersection(*omit_pushes) if omit_pushes else set()
        for q in runs['Reject']:
            if split_ret(q)[0] != 'some':
                continue
            extra = [t for t in pushes(q) if t not in common]
            if not any('Diagnostic::error' in t and 'PropertyCode::' in t and 'item[<Filter<' in t for t in extra):
                bad.append('reject mode does not report (as an error) the dynamic property it finds')
            if not any('Diagnostic::error' in t and 'CallbackCode::' in t for t in extra):
                bad.append('reject mode does not report (as an error) the signal callback it finds')
        for m_ in ('Omit', 'Generate'):
            for q in runs[m_]:
                if any('CallbackCode::' in t for t in pushes(q)):
                    bad.append(f'{m_} mode reports signal callbacks as errors')
        ob['paths'] = {m: len(runs[m]) for m in MODES}
        ob['path_pairs_decided'] = decided
    except M.MirError as e:
        O._finish(ob, t0, ['MIR: ' + str(e)], unknown=True)
        ob['detail'] = 'MIR: ' + str(e)
        return ob
    return O._finish(ob, t0, sorted(set(bad)))


def predicate_obligation(fns, consts):
    ob = O._ob('c14_mir_same_dynamic_predicate', 'uigen::build filter closure of reject mode; UiSupportCode::build filter closure', 'an arbitrary property code (opaque)',
               'reject mode reports exactly the properties generate mode turns into bindings: both filters are !is_evaluated_constant() of the property code')
    t0 = time.time()
    bad = []
    try:
        def pred(fn, arg):
            eng = c08.Engine(fns, consts, 1, {})
            it = eng.interp(fn, {'_1': M.Opaque('env'), '_2': arg})
            p0 = M.Path()
            p0.heap = {}
            rets = [q for q in it.run(path=p0) if q.end == 'return']
            if len(rets) != 1:
                raise M.MirError('predicate closure forks')
            return c08.canon(rets[0].ret)
        P = M.Opaque('property_code')
        rej = [f for n, f in fns.items() if re.match(r'uigen::build::\{closure#\d+\}$', n) and f.header.rstrip(' {').endswith('-> bool')]
        gen = [f for n, f in fns.items() if re.search(r'binding\.rs:\d+:\d+: \d+:19>::build::\{closure#\d+\}$', n) and f.header.rstrip(' {').endswith('-> bool')]
        if len(rej) != 2 or len(gen) != 1:
            raise M.MirError(f'{len(rej)} / {len(gen)} filter closures found (expected 2 in uigen::build, 1 in UiSupportCode::build)')
        # uigen::build: closure over &&PropertyCode ; UiSupportCode::build: closure over &(&&str, &PropertyCode)
        terms_rej = [pred(f, M.Ref(M.Ref(P))) for f in rej]
        term_gen = pred(gen[0], M.Ref(M.Tup([M.Ref(M.Opaque('key')), M.Ref(P)])))
        ob['predicates'] = {'reject/attached': terms_rej, 'generate': term_gen}
        norm = lambda t: re.sub(r'&+', '', t)
        if len(set(norm(t) for t in terms_rej + [term_gen])) != 1:
            bad.append(f'the filters differ: {terms_rej} vs {term_gen}')
        if 'is_evaluated_constant' not in term_gen or not term_gen.startswith('op:Not'):
            bad.append(f'the generate-mode filter is not !is_evaluated_constant(): {term_gen}')
    except M.MirError as e:
        O._finish(ob, t0, ['MIR: ' + str(e)], unknown=True)
        ob['detail'] = 'MIR: ' + str(e)
        return ob
    return O._finish(ob, t0, bad)


def never_dropped_obligation(fns, consts):
    """generate mode: a property selected as dynamic becomes a binding or an error is reported (so that 'accepted with no
    bindings' really means 'has no dynamic property', as reject mode assumes)"""
    ob = O._ob('c14_mir_dynamic_property_bound_or_reported', 'binding::CxxUpdateBinding::build; filter_map closure of UiSupportCode::build',
               'all paths; outcomes of fallible callees symbolic',
               'every path that gives up on a dynamic property (returns None) has pushed an error diagnostic itself, or gives up because verify_code_return_type / CxxUpdateBinding::build gave up')
    t0 = time.time()
    bad = []
    DELEGATES = ('verify_code_return_type', 'CxxUpdateBinding::build')
    try:
        targets = [f for n, f in fns.items() if re.search(r'binding\.rs:\d+:\d+: \d+:\d+>::build$', n) and f.header.rstrip(' {').endswith('Option<CxxUpdateBinding>')]
        clos = [f for n, f in fns.items() if re.search(r'binding\.rs:\d+:\d+: \d+:19>::build::\{closure#\d+\}$', n) and f.header.rstrip(' {').endswith('Option<CxxBinding>')]
        if len(targets) != 1 or len(clos) != 1:
            raise M.MirError(f'{len(targets)} CxxUpdateBinding::build / {len(clos)} filter_map closures found')
        for fn in targets + clos:
            def model(c, it, p):
                if not hasattr(p, 'heap'):
                    p.heap = {}
                if c.callee.endswith('as Try>::branch'):
                    src = c08.deref(c.args[0])
                    nm = getattr(src, 'callee', '') or ''
                    b = z3.Bool(f'gives_up#{c.seq}')
                    h1 = dict(p.heap)
                    h1['#gave_up'] = p.heap.get('#gave_up', ()) + (nm,)
                    return M.Fork([([z3.Not(b)], None, M.Adt('ControlFlow::Continue', [M.Opaque(f'value#{c.seq}')])),
                                   ([b], h1, M.Adt('ControlFlow::Break', [M.Opaque(f'residual#{c.seq}')]))])
                return None
            it = M.Interp(fn, consts, call_model=model)
            paths = [q for q in it.run(max_paths=2000) if q.end == 'return']
            if not paths:
                raise M.MirError('no returning path in ' + fn.name)
            for q in paths:
                r = q.ret
                is_none = (isinstance(r, M.Adt) and r.path.endswith('None')) or (isinstance(r, M.Call) and r.callee.endswith('from_residual'))
                if not is_none:
                    continue
                if M.check(q.pc) == 'unsat':
                    continue
                pushed = any(c.callee.endswith('Diagnostics::push') and c14_derives(c.args[1], 'Diagnostic::error') for c in q.calls)
                gave = getattr(q, 'heap', {}).get('#gave_up', ())
                delegated = bool(gave) and any(gave[-1].split('::<')[0].endswith(d) for d in DELEGATES)
                if not pushed and not delegated:
                    last_calls = [c.callee.split('::<')[0].split('::')[-1] for c in q.calls][-4:]
                    bad.append(f'{fn.name.split("::")[-1] if "closure" not in fn.name else "filter_map closure"}: a path returns None without an error diagnostic (after {last_calls})')
        ob['paths_checked'] = 'all returning None paths of both bodies'
    except M.MirError as e:
        O._finish(ob, t0, ['MIR: ' + str(e)], unknown=True)
        ob['detail'] = 'MIR: ' + str(e)
        return ob
    return O._finish(ob, t0, sorted(set(bad)))


def c14_derives(v, suffix, depth=0):
    v = c08.deref(v)
    if depth > 10:
        return False
    if isinstance(v, M.Call):
        return v.callee.split('::<')[0].endswith(suffix) or any(c14_derives(x, suffix, depth + 1) for x in v.args)
    return False


PROBES = [
    ('static', 'QLabel { id: lab; text: "x" }', True),
    ('dynamic-binding', 'QCheckBox { id: src }\n  QLabel { id: lab; enabled: src.checked }', False),
    ('callback', 'QPushButton { id: btn; onClicked: btn.setEnabled(false) }', False),
    ('gadget-dynamic', 'QCheckBox { id: src }\n  QLabel { id: lab; font.bold: src.checked; font.family: "x" }', False),
    # dynamic bindings on pseudo-properties without getter/setter: an error in BOTH modes
    ('dynamic-pseudo-property', 'QCheckBox { id: src }\n  QSpacerItem { orientation: src.checked ? Qt.Horizontal : Qt.Vertical }', None),
    ('dynamic-actions-list', 'QCheckBox { id: src }\n  QMenu { id: menu; actions: src.checked ? [a, b] : [b, a]\n   QAction { id: a }\n   QAction { id: b }\n  }', None),
    ('attached-dynamic', 'QCheckBox { id: src }\n  QLabel { id: lab; QVBoxLayout.stretch: src.checked ? 1 : 2 }', None),
    ('mixed', 'QCheckBox { id: src; onToggled: lab.setEnabled(false) }\n  QLabel { id: lab; text: "x"; visible: src.checked; font.bold: src.checked }', None),
    # nested object maps (header views): a dynamic member is 'nested dynamic binding' in generate mode and must be an error in reject mode too
    ('nested-object-static', 'QTableView { id: view; horizontalHeader.visible: false }', None),
    ('nested-object-dynamic', 'QCheckBox { id: src }\n  QTableView { id: view; horizontalHeader.visible: src.checked }', None),
    ('nested-object-mixed', 'QCheckBox { id: src }\n  QTreeView { id: view; header.visible: src.checked; header.defaultSectionSize: 10 }', None),
    ('callback-with-return-annotation', 'QPushButton { id: btn; onClicked: function(): void { btn.setEnabled(false) } }', None),
]


def build_driver():
    import shutil, subprocess
    src = os.path.join(C.VERIF, 'harness', 'c14replay')
    d = os.path.join(C.CACHE, 'c14replay')
    os.makedirs(os.path.join(d, 'src'), exist_ok=True)
    shutil.copy(os.path.join(src, 'Cargo.toml'), d)
    shutil.copy(os.path.join(src, 'src', 'main.rs'), os.path.join(d, 'src'))
    shutil.copy(os.path.join(C.REPO, 'Cargo.lock'), d)
    with C.Lock('c14replay'):
        r = subprocess.run(['cargo', 'build', '--offline'], cwd=d, capture_output=True, text=True, env=dict(C.ENV, CARGO_NET_OFFLINE='true'), timeout=1800)
    if r.returncode != 0:
        return None, r.stderr[-1500:]
    return os.path.join(d, 'target', 'debug', 'c14replay'), ''


def judge_modes(lines):
    """the statement of C14 on the three results of one document -> list of violations"""
    m = {}
    for l in lines:
        x = re.match(r'MODE (\w+) form=(\w+) support=(\w+)(?: members=(\d+))? errors=(\w+) diagnostics=(.*)', l)
        if x:
            m[x.group(1)] = {'form': x.group(2), 'support': x.group(3) == 'yes', 'members': int(x.group(4) or 0), 'errors': x.group(5) == 'true',
                             'diagnostics': re.findall(r'"((?:[^"\\]|\\.)*)"', x.group(6))}
    if set(m) != {'omit', 'generate', 'reject'}:
        return ['driver output incomplete: ' + ' | '.join(lines)[:200]]
    out = []
    forms = {k: v['form'] for k, v in m.items() if v['form'] != 'none'}
    if len(set(forms.values())) > 1:
        out.append(f'the .ui differs between modes: {forms}')
    if len(forms) not in (0, 3):
        out.append(f'a form is produced in some modes only: {sorted(forms)}')
    for k in ('omit', 'reject'):
        if m[k]['support']:
            out.append(f'support code is produced in {k} mode')
    if forms and not m['generate']['support']:
        out.append('generate mode produces no support code')
    errs = lambda k: [d for d in m[k]['diagnostics'] if d.startswith('Error')]
    missing = [d for d in errs('omit') if d not in errs('generate')]
    if missing:
        out.append(f'errors of omit mode missing in generate mode: {missing}')
    gen_clean = not m['generate']['errors'] and m['generate']['members'] == 0
    rej_ok = not m['reject']['errors']
    if gen_clean != rej_ok:
        out.append(f"reject mode {'accepts' if rej_ok else 'rejects'} although generate mode {'accepts with an empty support header' if gen_clean else ('reports errors' if m['generate']['errors'] else 'generates ' + str(m['generate']['members']) + ' members')}")
    return out


def replay(workdir):
    """the REAL uigen::build under the three modes (driver crate linked against /repo/lib) on probe documents"""
    import subprocess
    os.makedirs(workdir, exist_ok=True)
    drv, err = build_driver()
    if drv is None:
        return False, {'failed_probes': [], 'error': 'replay driver does not build: ' + err}
    failed = []
    versioned = [(n + '+warning', b, x) for n, b, x in PROBES]          # a versioned import only warns
    for name, body, _ in PROBES + versioned:
        imp = 'import qmluic.QtWidgets 6.2' if name.endswith('+warning') else 'import qmluic.QtWidgets'
        text = f'{imp}\nQWidget {{\n QVBoxLayout {{\n  {body}\n }}\n}}\n'
        with open(os.path.join(workdir, f'{name}.qml'), 'w') as f:
            f.write(text)
        r = subprocess.run([drv], input=text, capture_output=True, text=True, timeout=60)
        lines = [l for l in r.stdout.split('\n') if l.startswith('MODE')]
        why = judge_modes(lines) if r.returncode == 0 else ['driver failed: ' + r.stderr[-200:]]
        if why:
            failed.append({'probe': name, 'why': why, 'modes': lines})
    with open(os.path.join(workdir, 'README.txt'), 'w') as f:
        f.write('harness/c14replay (linked against /repo/lib) < <probe>.qml : uigen::build under omit / generate / reject\n' + json.dumps(failed, indent=1) + '\n')
    return bool(failed), {'failed_probes': failed}


def run(res, args):
    fns, consts = O.load()
    text = M.dump_mir()
    obs = [mode_scan(fns, text), build_obligations(fns, consts), predicate_obligation(fns, consts), never_dropped_obligation(fns, consts)]

    def rp(ob, d):
        rep, info = replay(d)
        return rep, info, {'site': ob['name'], 'probe': info['failed_probes'][0]['probe'] if info['failed_probes'] else None}
    O.merge(res, obs, res.coverage, rp, 'modes')
    res.assumptions += [
        'C14 engine C: calls are uninterpreted, deterministic functions of their arguments; loops are unrolled once; nothing below uigen::build can depend on the mode because no other function inspects it (obligation 1)',
        'Outside the claim: that equal form terms serialise to equal bytes (C08), src/main.rs (which mode each sub-command selects, when files are written), omit mode end to end (needs `qmluic preview`)',
    ]
