"""C08, iterator part: PropertyCodeBodies (the recursive iterator over all code bodies of an object, which feeds the include
list and other whole-object scans).  Its MIR (`next`, with its explicit stack of hash_map::Values iterators) is executed
repeatedly until it returns None, over a binding map with K=2 entries whose kind (expression / gadget map / object map) is
symbolic and whose nested maps hold expressions, for both iteration orders of the top-level map: z3 decides for every pair
of jointly feasible paths that the SET of code bodies visited is the same."""
import itertools, re, time
import z3
from .. import common as C, mir as M
from . import mir_obligations as O, c08
from .c08_palette import enum_variants


class IterH:
    def __init__(self, name):
        self.name = name


class StackH:
    name = 'stack'


class Bodies(c08.Engine):
    def __init__(self, fns, consts, order0, expr_index, nfields, kind_field):
        super().__init__(fns, consts, 2, {0: order0})
        self.expr_index, self.nfields, self.kind_field = expr_index, nfields, kind_field

    def interp(self, fn, args):
        it = super().interp(fn, args)

        def store(place_text, value, it_, p):
            m = re.fullmatch(r'\(\*(_\d+)\)', place_text.strip())
            tgt = c08.deref(p.env.get(m.group(1))) if m else None
            v = c08.deref(value)
            if isinstance(tgt, IterH) and isinstance(v, IterH):
                p.heap[tgt.name] = p.heap[v.name]
                return
            raise M.MirError('store: ' + place_text)
        it.store_model = store
        return it

    def call(self, c, it, p):
        name, a = c.callee, c.args
        last = name.split('::<')[0].split('::')[-1]
        if not hasattr(p, 'heap'):
            p.heap = {}
        recv = c08.deref(a[0]) if a else None
        if isinstance(recv, StackH):
            st = p.heap['stack']
            if last in ('deref_mut', 'deref', 'as_mut_slice', 'as_slice'):
                return a[0]
            if last in ('last_mut', 'last'):
                return M.Adt('Option::Some', [M.Ref(st[-1])]) if st else M.Adt('Option::None', [])
            if last == 'push':
                p.heap['stack'] = st + (c08.deref(a[1]),)
                return M.Tup([])
            if last == 'pop':
                p.heap['stack'] = st[:-1]
                return M.Adt('Option::Some', [st[-1]]) if st else M.Adt('Option::None', [])
            raise M.MirError('unmodelled stack operation ' + name)
        if isinstance(recv, IterH) and last == 'next':
            items = p.heap[recv.name]
            if not items:
                return M.Adt('Option::None', [])
            p.heap[recv.name] = items[1:]
            return M.Adt('Option::Some', [items[0]])
        if last == 'values' and ('HashMap' in name or 'hash_map' in name):
            mp = c08.deref(a[0])
            nm = c08.canon(mp)
            depth = nm.count('@')
            n = self.container_of(a[0], it)
            perm = self.orders.get(n, (0, 1))
            vals = []
            for i in perm:
                if n == 0:
                    v = M.Opaque(f'm{n}e{i}.value', 'PropertyCode')          # kind symbolic
                else:
                    # bound: the entries of nested maps are expressions
                    # named after the map they live in (container ordinals depend on the visiting order)
                    f = [M.Opaque(f'{nm}#e{i}.value.{k}') for k in range(self.nfields)]
                    f[self.kind_field] = M.Adt('PropertyCodeKind::Expr', [M.Opaque(f'{nm}#e{i}.type'), M.Opaque(f'{nm}#e{i}.code')])
                    v = M.Adt('PropertyCode', f)
                vals.append(M.Ref(v))
            h = IterH(f'values{self._next()}')
            p.heap[h.name] = tuple(vals)
            p.heap['#depth:' + str(n)] = depth
            return h
        return super().call(c, it, p)


def obligation(fns, consts):
    ob = O._ob('c08_mir_hash_order_code_bodies[K=2]', 'uigen::objcode::PropertyCodeBodies::next (iterated until None)',
               'a binding map with 2 entries, each symbolically an expression, a gadget map or an object map; nested maps with 2 entries that are expressions; both iteration orders of the top-level map; at most 12 calls of next()',
               'the set of code bodies visited does not depend on the iteration order (the iterator feeds order-insensitive whole-object scans such as the include list)')
    t0 = time.time()
    bad = []
    try:
        fn = M.find_fn(fns, r'objcode\.rs:\d+:\d+: \d+:61>::next$')
        variants = enum_variants('lib/src/uigen/objcode.rs', 'PropertyCodeKind')
        ei = variants.index('Expr')
        pfields = O.struct_fields('lib/src/uigen/objcode.rs', 'PropertyCode')
        kind_field = pfields.index('kind')
        for i, v in enumerate(variants):
            M.VARIANT_INDEX[v] = i
        M.ENUM_TYPES.add('PropertyCodeKind')

        def drive(order0):
            eng = Bodies(fns, consts, order0, ei, len(pfields), kind_field)
            top = M.Opaque('bindings', 'HashMap')
            p0 = M.Path()
            p0.pc, p0.heap = [], {}
            # PropertyCodeBodies::new: stack = vec![map.values()]
            cnew = M.Call('HashMap::values', [M.Ref(top)], 0)
            first = eng.call(cnew, eng.interp(fn, {}), p0)
            p0.heap['stack'] = (first,)
            me = M.Ref(M.Adt('PropertyCodeBodies', [StackH()]))
            done, work = [], [(p0, ())]
            for _ in range(12):
                nxt = []
                for p, seen in work:
                    it = eng.interp(fn, {'_1': me})
                    q0 = M.Path()
                    q0.pc, q0.heap = list(p.pc), dict(p.heap)
                    for q in it.run(path=q0, max_paths=500):
                        if q.end != 'return':
                            continue
                        # nested maps hold expressions only (bound): constrain the kinds of entries of containers > 0
                        r = q.ret
                        if isinstance(r, M.Adt) and r.path.endswith('None'):
                            done.append((q, seen))
                        else:
                            nxt.append((q, seen + (c08.canon(r.fields[0]),)))
                work = nxt
                if not work:
                    break
            if work:
                raise M.MirError('the iterator does not finish within 12 calls')
            return done, eng
        runs = {o: drive(o) for o in ((0, 1), (1, 0))}
        deep = []
        decided = 0
        A, B = runs[(0, 1)][0], runs[(1, 0)][0]
        if not A or not B:
            raise M.MirError('no finished path')
        for qa, sa in A:
            for qb, sb in B:
                if set(sa) == set(sb):
                    continue
                r = M.check(qa.pc + qb.pc + deep, 20000)
                decided += 1
                if r == 'unsat':
                    continue
                if r == 'unknown':
                    bad.append('UNKNOWN: path pair')
                    continue
                bad.append(f'the visited code bodies depend on the order: {sorted(set(sa))} vs {sorted(set(sb))}')
                break
            if bad:
                break
        ob['paths'] = {'forward': len(A), 'reversed': len(B)}
        ob['path_pairs_decided'] = decided
    except (M.MirError, ValueError) as e:
        O._finish(ob, t0, ['MIR: ' + str(e)], unknown=True)
        ob['detail'] = 'MIR: ' + str(e)
        return ob
    O._finish(ob, t0, bad, unknown=bool(bad) and all(b.startswith('UNKNOWN') for b in bad))
    return ob


DOC = """import qmluic.QtWidgets
QWidget {
    QVBoxLayout {
        QSpinBox { id: spin }
        QLabel {
            id: lab
            font.bold: true
            indent: Math.max(spin.value, 1)
        }
        QPushButton {
            id: btn
            font.italic: true
            onClicked: console.log("x")
        }
    }
}
"""


def replay(ob, workdir, runs=32):
    import hashlib, os
    from ..tv import driver as D
    os.makedirs(workdir, exist_ok=True)
    outs = {}
    for i in range(runs):
        r = D.run_cli(C.build_native(), workdir, DOC, 'Bodies')
        if r.rc != 0 or not r.header:
            return False, {'error': 'replay document rejected: ' + r.stderr[-300:]}
        h = hashlib.sha1((r.ui + r.header).encode()).hexdigest()
        if h not in outs:
            outs[h] = 1
            with open(os.path.join(workdir, f'uisupport_bodies-{len(outs)}.h'), 'w') as f:
                f.write(r.header)
    with open(os.path.join(workdir, 'README.txt'), 'w') as f:
        f.write(f'qmluic generate-ui --foreign-types /repo/contrib/metatypes Bodies.qml, run {runs} times: {len(outs)} distinct outputs\n')
    return len(outs) > 1, {'runs': runs, 'distinct_outputs': len(outs)}
