"""C02 Dynamic bindings stay current when any property they read changes.

Engine B, one inductive step over two symbolic states (DESIGN 3/C02): after eval<B>() has run in state s from an
arbitrary observer memory m, let Obs(s, m) be the (object, property) pairs whose notify signal is connected to
update<B> (static connections of setup<B>() + one pair per valid observer slot).  The target is stale exactly
when the state moves from s to s' without any observed pair changing while the source value differs.
Query: exists m, s, s'. defined(s) & defined(s') & (forall (o,p) in Obs(s,m). s'(o,p) = s(o,p)) & value(s') != value(s).
unsat => no sequence of un-notified changes can make the target stale (histories of any length: after every
notified change update<B> re-runs and we are again in "some s, some m")."""
import itertools, os, random, re
import z3
from .. import common as C
from ..tv import suite as S, driver as D, gen as G, lang as L, cxx, ref as R, replay as RP, env as E
from ..tv.sem import Prims, ListVal, equal, TRUE, FALSE, fresh
from . import c01

LEVEL = 'translation_validation'
P = G.P


# ----------------------------------------------------------------------------- corpus
def ptr_exprs(depth):
    """pointer-valued expressions: ids, this, .next chains, ternaries selecting pointers"""
    base = [('obj', 'a'), ('obj', 'b'), ('this',)]
    level = list(base)
    allp = list(base)
    for _ in range(depth):
        nxt = [('prop', e, 'next') for e in level]
        allp += nxt
        level = nxt
    allp += [('tern', P('a', 'flag'), ('obj', 'b'), ('obj', 'c')),
             ('tern', P('a', 'flag'), P('a', 'next'), P('b', 'next')),
             ('tern', P('b', 'flag'), ('obj', 'a'), P('a', 'next')),
             ('tern', ('bin', '==', P('a', 'next'), ('lit', 'null', None)), ('obj', 'c'), P('a', 'next'))]
    return allp


def straightline_pointer_programs(max_ops):
    """bounded-exhaustive: two pointer locals, five initialisation pairs, every sequence of <= max_ops steps among
    {assignment from a named object / the other local / .next of a named object or of a local / a ternary-selected
    object, and an intermediate *read* through either local (s = s ^ p.ival)}, then a final read through either local.
    Exercises the per-block tracking of which local still designates a statically known object and the placement /
    de-duplication of observers when a local is re-pointed between two reads."""
    a, b, c = ('obj', 'a'), ('obj', 'b'), ('obj', 'c')
    lp, lq, ls = ('local', 'p'), ('local', 'q'), ('local', 's')
    tern = ('tern', P('a', 'flag'), b, c)
    inits = [(a, a), (P('b', 'next'), a), (tern, a), (a, lq), (P('b', 'next'), P('b', 'next'))]
    ops = [('p', a), ('p', b), ('p', lq), ('q', lp), ('q', c), ('p', P('a', 'next')), ('q', P('b', 'next')),
           ('p', ('prop', lq, 'next')), ('q', ('prop', lp, 'next')), ('q', tern), ('read', 'p'), ('read', 'q')]
    out = []
    for iq, ip in inits:
        for n in range(0, max_ops + 1):
            for seq in itertools.product(ops, repeat=n):
                for rd in ('p', 'q'):
                    body = [('let', 'let', 'q', None, iq), ('let', 'let', 'p', None, ip), ('let', 'let', 's', None, ('lit', 'int', 0))]
                    for v, e in seq:
                        if v == 'read':
                            body.append(('assign', 's', ('bin', '^', ls, ('prop', ('local', e), 'ival'))))
                        else:
                            body.append(('assign', v, e))
                    body.append(('return', ('bin', '^', ls, ('prop', ('local', rd), 'ival'))))
                    out.append(D.Program('binding', 'int', body, tag='ptr-straightline'))
    return out


GROUP_MEMBERS = {'pointSize': 'int', 'bold': 'bool', 'family': 'QString'}
GROUP_CONST = {'pointSize': ('lit', 'int', 9), 'bold': ('lit', 'bool', True), 'family': ('lit', 'QString', 'Mono')}


def group_programs():
    """grouped (gadget) bindings font.<member>: every dynamic member x every set of sibling members that are
    constants (none / one / two) -- a constant sibling must not swallow the dynamic one"""
    exprs = {'int': [P('a', 'ival'), ('prop', P('a', 'next'), 'ival'), ('bin', '+', P('a', 'ival'), ('lit', 'int', 1))],
             'bool': [P('a', 'flag'), ('bin', '&&', ('bin', '!=', P('a', 'next'), ('lit', 'null', None)), ('prop', P('a', 'next'), 'flag'))],
             'QString': [P('a', 'sval'), ('bin', '+', P('b', 'sval'), ('lit', 'QString', '!'))]}
    out = []
    for m, ty in GROUP_MEMBERS.items():
        others = [x for x in GROUP_MEMBERS if x != m]
        for sib in ([], [others[0]], [others[1]], others):
            for e in exprs[ty]:
                p = D.Program('binding', ty, e, tag='grouped-binding')
                p.group = ('font', m, [(x, GROUP_CONST[x]) for x in sib])
                out.append(p)
    return out


def pointer_programs(tier, rng):
    progs = straightline_pointer_programs(3 if tier == 'thorough' else 2) + group_programs()
    progs += [D.Program('binding', ty, ss, tag='dynamic-then-constant') for ty, ss in G.dynamic_then_constant_tail()]
    I = lambda v: ('lit', 'int', v)
    reads = [('ival', 'int'), ('flag', 'bool'), ('sval', 'QString'), ('level', 'int')]
    pes = ptr_exprs(3 if tier == 'thorough' else 2)
    for pe in pes:
        for prop, ty in reads:
            if pe == ('this',) and prop == G.TARGET[ty]:
                continue                                   # a binding must not read its own target
            progs.append(D.Program('binding', ty, ('prop', pe, prop), tag='ptr-read'))
            # through a local
            progs.append(D.Program('binding', ty, [('let', 'let', 'p', None, pe), ('return', ('prop', ('local', 'p'), prop))], tag='ptr-via-local'))
        # reading the pointer itself
        if pe[0] != 'this':
            progs.append(D.Program('binding', 'ptr:VNode', pe, tag='ptr-value'))
    # locals assigned in one branch only / reassigned / selected by if and switch
    for sel in (P('a', 'flag'), ('bin', '>', P('b', 'ival'), I(0))):
        progs.append(D.Program('binding', 'int', [('let', 'let', 'p', None, ('obj', 'a')), ('if', sel, [('assign', 'p', P('b', 'next'))], None),
                                                  ('return', ('prop', ('local', 'p'), 'ival'))], tag='ptr-local-branch'))
        progs.append(D.Program('binding', 'int', [('let', 'let', 'p', 'ptr:VNode', None), ('if', sel, [('assign', 'p', ('obj', 'b'))], [('assign', 'p', P('a', 'next'))]),
                                                  ('return', ('prop', ('local', 'p'), 'ival'))], tag='ptr-local-branch'))
        progs.append(D.Program('binding', 'int', [('let', 'let', 'p', None, ('obj', 'a')), ('let', 'let', 'q', None, ('local', 'p')), ('assign', 'p', P('q', 'next') if False else ('prop', ('local', 'q'), 'next')),
                                                  ('if', sel, [('return', ('prop', ('local', 'q'), 'ival'))], None), ('return', ('prop', ('local', 'p'), 'ival'))], tag='ptr-local-reassign'))
        progs.append(D.Program('binding', 'int', [('let', 'let', 'p', None, ('obj', 'c')),
                                                  ('switch', P('a', 'ival'), [(I(1), [('assign', 'p', ('obj', 'a'))]), (I(2), [('assign', 'p', P('b', 'next')), ('break',)]), (None, [])]),
                                                  ('return', ('prop', ('local', 'p'), 'ival'))], tag='ptr-local-switch'))
    # reads in only one arm of && || ?: if
    n1, n2 = P('a', 'next'), ('prop', P('a', 'next'), 'next')
    nn = lambda e: ('bin', '!=', e, ('lit', 'null', None))
    one_arm = [
        ('bool', ('bin', '&&', nn(n1), ('prop', n1, 'flag'))),
        ('bool', ('bin', '||', ('bin', '==', n1, ('lit', 'null', None)), ('prop', n1, 'flag'))),
        ('bool', ('bin', '&&', ('bin', '&&', nn(n1), nn(n2)), ('prop', n2, 'flag'))),
        ('int', ('tern', nn(n1), ('prop', n1, 'ival'), P('b', 'ival'))),
        ('int', ('tern', P('a', 'flag'), ('prop', n1, 'ival'), ('prop', P('b', 'next'), 'ival'))),
        ('bool', ('bin', '&&', ('bin', '==', P('a', 'next'), P('b', 'next')), ('bin', '&&', nn(n1), ('prop', n1, 'flag')))),
        ('int', ('bin', '+', ('prop', ('tern', P('a', 'flag'), ('obj', 'b'), ('obj', 'c')), 'ival'), P('a', 'cval'))),
        ('QString', ('bin', '+', ('prop', n1, 'sval'), ('sub', ('prop', n1, 'items'), I(0)))),
        ('int', ('call', 'max', ('prop', n1, 'ival'), ('prop', ('this',), 'uval') if False else P('b', 'ival'))),
        ('bool', ('bin', '==', ('prop', n1, 'mode'), ('enum', 'Mode', 'ModeB'))),
        ('int', ('iprop', 'cval')), ('bool', ('bin', '>', ('iprop', 'ival'), I(3))), ('QString', ('prop', ('this',), 'sval') if False else ('bin', '+', ('iprop', 'sval') if False else P('a', 'sval'), ('tr', 'x'))),
    ]
    for ty, e in one_arm:
        progs.append(D.Program('binding', ty, e, tag='ptr-one-arm'))
        progs.append(D.Program('binding', ty, [('if', P('c', 'flag'), [('return', e)], None), ('return', e)], tag='ptr-one-arm'))
    # random pointer programs: statements with pointer locals
    n = 600 if tier == 'thorough' else 80
    for _ in range(n):
        ty = rng.choice(['int', 'bool', 'QString', 'ptr:VNode'])
        g = G.StmtGen(rng)
        progs.append(D.Program('binding', ty, g.stmts(ty, {}, 2, True), tag='stmt-random'))
    return progs


# ----------------------------------------------------------------------------- analysis
OBS_RE = re.compile(r'observed\[(\d+)\]\.connection = QObject::connect\((a\d+), QOverload<(.*?)>::of\(&([\w:]+)::(\w+)\), this->root_, update\);')
MAX_UNROLL = 3


class TwoState:
    """encodes one binding: reference value per state, emitted eval per (state, observer memory)"""
    def __init__(self, prog, hdr, nprog, abstract, concrete_lib=False):
        self.prog, self.hdr = prog, hdr
        self.P = Prims(abstract, concrete_lib)
        self.env = D.make_env(nprog, prog.target())
        # pointer-valued properties never designate the owner of the binding: a binding that reads its own target
        # is a binding loop (asserted by the generated code), not a staleness question
        self.env.universe = set(D.BASE_OBJECTS)
        self.s1 = R.Store(self.env, 's1_')
        self.s2 = R.Store(self.env, 's2_')
        self.problems = []
        self.slots = {}
        self.static = []

    def vnodes(self):
        """objects whose properties are part of the state (the owner included; it is only excluded as a *value* of
        pointer properties)"""
        return [o for o in self.s1.ids if self.env.objects[o] == 'VNode' and (o in self.env.universe or o == self.prog.target())]

    def ref_value(self, store):
        """-> (value, defined) of the source in `store` (merged over paths)"""
        prog = self.prog
        r = R.Ref(self.env, self.P, store)
        p0 = R.initial_path(store.copy())
        sc = L.Scope()
        if prog.form == 'expr':
            v, ty = r.ev(prog.body, p0, sc, prog.ty)
            outs = [(p0, 'return', (v, L.conc(ty), None))]
        else:
            outs = r.run(prog.body, [(p0, 'normal', None)], sc)
        val, dfn = None, FALSE
        for (p, kind, rv) in outs:
            x = rv if kind == 'return' else p.cv
            if x is None or x[0] is None:
                continue
            ok = z3.And(p.pc, p.d, p.vok)
            val = x[0] if val is None else (ListVal.ite(p.pc, x[0], val) if isinstance(x[0], ListVal) else z3.If(p.pc, x[0], val))
            dfn = z3.Or(dfn, ok)
        return val, dfn

    # ------------------------------------------------------------------------------------------------
    def fresh_memory(self, tag, disconnected=False):
        mu = {}
        for k, sig in self.slots.items():
            if disconnected:
                mu[k] = {'obj': z3.IntVal(0), 'valid': FALSE, 'target': z3.IntVal(0), 'sig': sig}
            else:
                mu[k] = {'obj': z3.Int(f'{tag}obs{k}.obj'), 'valid': z3.Bool(f'{tag}obs{k}.valid'), 'target': z3.Int(f'{tag}obs{k}.target'), 'sig': sig}
        return mu

    def invariant(self, mu):
        """representation invariant of the observer memory: a valid connection listens to the recorded, live object"""
        cs = []
        for k, o in mu.items():
            cs.append(z3.Implies(o['valid'], z3.And(o['target'] == o['obj'], z3.Or([o['target'] == self.s1.oid[x] for x in self.vnodes()]))))
        return z3.And(cs) if cs else TRUE

    def eval_step(self, store, mu, tag):
        """runs the emitted eval in `store` from memory `mu` -> (results, bad, merged memory afterwards)"""
        f = self.hdr.funcs['eval' + self.prog.suffix()]
        ex = cxx.Exec(f, self.env, self.P, store, 'root', E.ENUMS, observers={k: dict(v) for k, v in mu.items()}, tag=tag)
        results, bad = ex.run({})
        merged = {}
        for k in self.slots:
            cur = None
            for r in results:
                o = r['obs'].get(k, mu[k])
                if cur is None:
                    cur = dict(o)
                else:
                    cur = {'obj': z3.If(r['pc'], o['obj'], cur['obj']), 'valid': z3.If(r['pc'], o['valid'], cur['valid']),
                           'target': z3.If(r['pc'], o['target'], cur['target']), 'sig': cur['sig']}
            merged[k] = cur if cur is not None else dict(mu[k])
            merged[k]['sig'] = self.slots[k]
        return results, bad, merged

    def build(self):
        prog, hdr = self.prog, self.hdr
        suffix = prog.suffix()
        f = hdr.funcs.get('eval' + suffix)
        if f is None:
            return None
        cls = self.env.cls('VNode')
        slots = {}
        for ln in f.body:
            m = OBS_RE.search(ln)
            if m:
                k = int(m.group(1))
                ov = [cxx.norm_cxx_type(a) for a in m.group(3).split(',') if a.strip()]
                if k in slots:
                    self.problems.append(f'observer slot {k} used by two statements')
                slots[k] = (m.group(4), m.group(5), ov)
        size = hdr.observer_sizes.get(suffix, 0)
        if slots and max(slots) >= size:
            self.problems.append(f'observer index {max(slots)} outside observed{suffix}_[{size}]')
        self.slots = slots
        gsuffix = prog.group_suffix() if prog.group is not None else suffix
        static = []
        for sender, c, sig, ov in hdr.static_connections(gsuffix):
            tok, j = cxx.scan_operand(sender, 0)
            if tok[0] == 'obj':
                o = tok[1]
            elif tok[0] == 'root':
                o = 'root'
            else:
                raise cxx.Unsupported('static sender ' + sender)
            static.append((o, sig, ov))
        self.static = static
        for (o, sig, ov) in static + [(None, s[1], s[2]) for s in slots.values()]:
            cands = cls.signals_named(sig)
            if not cands:
                self.problems.append(f'connection to unknown signal {sig}')
                continue
            for pn in cls.prop_of_signal(sig):
                full = cls.notify_signal_of(pn)
                if full is None or ov != full.args:
                    self.problems.append(f'{sig}: connected overload {ov}, documented rule picks {full.args if full else None}')
        calls = hdr.setup_calls
        if calls.count('setup' + gsuffix) != 1 or calls.count('update' + gsuffix) != 1:
            self.problems.append(f'setup() does not call setup{gsuffix}/update{gsuffix} exactly once')
        if prog.group is None:
            tgt, setter, evalfn = hdr.update_target(suffix)
            want = cls.prop(G.TARGET[prog.ty]).write
            if tgt != f'this->ui_->{prog.target()}' or setter != want or evalfn != 'eval' + suffix:
                self.problems.append(f'update{suffix} writes {tgt}->{setter}({evalfn}())')
        else:
            g, m = prog.group[0], prog.group[1]
            gp = cls.prop(g)
            ub = [l.strip() for l in hdr.funcs['update' + gsuffix].body]
            want_u = f'this->ui_->{prog.target()}->{gp.write}(this->eval{gsuffix}(this->ui_->{prog.target()}->{gp.read}()));'
            if want_u not in ub:
                self.problems.append(f'update{gsuffix} does not write {want_u}')
            eb = [l.strip() for l in hdr.funcs.get('eval' + gsuffix, cxx.Func('', '', [], [])).body]
            want_m = f'a.set{m[0].upper() + m[1:]}(this->eval{suffix}());'
            if want_m not in eb or 'return a;' not in eb:
                self.problems.append(f'eval{gsuffix} does not apply {want_m}')
        return True

    # ------------------------------------------------------------------------------------------------
    def observed_pairs(self, mu_after):
        """-> {(obj id, prop): condition under which the pair is observed}"""
        cls = self.env.cls('VNode')
        obs = {}

        def add(o, p, c):
            obs[(o, p)] = z3.Or(obs[(o, p)], c) if (o, p) in obs else c
        for (o, sig, ov) in self.static:
            if o == 'root':
                continue
            for p in cls.prop_of_signal(sig):
                add(o, p, TRUE)
        for k, (c, sig, ov) in self.slots.items():
            ob = mu_after[k]
            for p in cls.prop_of_signal(sig):
                for o in self.vnodes():
                    add(o, p, z3.And(ob['valid'], ob['target'] == self.s1.oid[o]))
        return obs

    def agree_on_observed(self, sa, sb, obs):
        cls = self.env.cls('VNode')
        cs = []
        for o in self.vnodes():
            for pd in cls.all_props().values():
                if pd.ty == 'QFont':
                    continue
                same = equal(sa.get(o, pd.name), sb.get(o, pd.name))
                if pd.constant:
                    cs.append(same)
                elif (o, pd.name) in obs:
                    cs.append(z3.Implies(obs[(o, pd.name)], same))
        bound = G.TARGET[self.prog.ty] if self.prog.group is None else None
        if bound:
            cs.append(equal(sa.get(self.prog.target(), bound), sb.get(self.prog.target(), bound)))
        return cs

    def constants_agree(self, sa, sb):
        cls = self.env.cls('VNode')
        return [equal(sa.get(o, pd.name), sb.get(o, pd.name)) for o in self.vnodes() for pd in cls.all_props().values() if pd.constant]

    def inductive_queries(self):
        """-> (staleness query, invariant-preservation query), each (constraints, wf)"""
        mu = self.fresh_memory('m_')
        results, bad, mu2 = self.eval_step(self.s1, mu, 'i1_')
        self.impl_results, self.impl_bad = results, bad
        v1, d1 = self.ref_value(self.s1)
        v2, d2 = self.ref_value(self.s2)
        if v1 is None:
            return None
        self.v1, self.v2 = v1, v2
        nobad = z3.Not(z3.Or([c for c, _ in bad])) if bad else TRUE
        obs = self.observed_pairs(mu2)
        wf = list(self.s1.wf()) + list(self.s2.wf())
        inv = self.invariant(mu)
        stale = [inv, d1, d2, nobad, z3.Not(equal(v1, v2))] + self.agree_on_observed(self.s1, self.s2, obs)
        if self.problems:
            stale = [d1, d2, z3.Not(equal(v1, v2))]
        preserve = [inv, d1, nobad, z3.Not(self.invariant(mu2))]
        return (stale, wf), (preserve, list(self.s1.wf()))

    def unrolled_query(self, k):
        """history from a fresh (all disconnected) memory: k runs of eval in states t0..t(k-1), then an un-notified
        change to state tk.  -> (constraints, wf, stores)"""
        stores = [R.Store(self.env, f't{i}_') for i in range(k + 1)]
        mu = self.fresh_memory('u_', disconnected=True)
        cs, wf = [], []
        self.unrolled_obs = []
        for i in range(k):
            results, bad, mu = self.eval_step(stores[i], mu, f'u{i}_')
            self.unrolled_obs.append(self.observed_pairs(mu))
            v, d = self.ref_value(stores[i])
            cs.append(d)
            if bad:
                cs.append(z3.Not(z3.Or([c for c, _ in bad])))
            if i + 1 < k:
                cs += self.constants_agree(stores[i], stores[i + 1])
        vlast, dlast = self.ref_value(stores[k - 1])
        vnew, dnew = self.ref_value(stores[k])
        obs = self.observed_pairs(mu)
        cs += [dnew, z3.Not(equal(vlast, vnew))]
        if not self.problems:
            cs += self.agree_on_observed(stores[k - 1], stores[k], obs)
        else:
            cs += self.constants_agree(stores[k - 1], stores[k])
        for st in stores:
            wf += list(st.wf())
        self.unrolled_values = (vlast, vnew)
        return cs, wf, stores


def _check(cs, wf, stats):
    import time
    s = z3.Solver()
    s.set('timeout', D.Z3_TIMEOUT_MS)
    s.add(*wf)
    s.add(*cs)
    t0 = time.time()
    r = s.check()
    stats['queries'] += 1
    stats['solver_s'] += time.time() - t0
    return r, s


def decide(prog, hdr, nprog, stats):
    for abstract in (True, False):
        ts = TwoState(prog, hdr, nprog, abstract)
        if ts.build() is None:
            return D.Verdict('no-function')
        q = ts.inductive_queries()
        if q is None:
            return D.Verdict('no-value')
        (stale, wf), (preserve, wfp) = q
        r, s = _check(stale, wf, stats)
        if r == z3.unsat:
            # the step is only inductive if the emitted block re-establishes the memory invariant
            rp, sp = _check(preserve, wfp, stats)
            if rp == z3.unsat or not ts.slots:
                stats['stage1_unsat' if abstract else 'stage2_unsat'] += 1
                return D.Verdict('unsat', stage=1 if abstract else 2, an=ts)
            if abstract:
                continue
            if rp != z3.sat:
                return D.Verdict('unknown', stage=2, why='invariant preservation: ' + sp.reason_unknown(), an=ts)
            # not inductive: decide histories of <= MAX_UNROLL updates from a fresh memory instead (bounded)
            stats['invariant_not_inductive(bounded unrolling used)'] += 1
            for k in range(1, MAX_UNROLL + 1):
                cs, wfk, _ = ts.unrolled_query(k)
                rk, sk = _check(cs, wfk, stats)
                if rk == z3.sat:
                    return D.Verdict('sat', model=sk.model(), stage=2, an=ts)
                if rk != z3.unsat:
                    return D.Verdict('unknown', stage=2, why=sk.reason_unknown(), an=ts)
            stats['stage2_unsat'] += 1
            return D.Verdict('unsat', stage=2, an=ts)
        if abstract:
            continue
        if r == z3.sat:
            return D.Verdict('sat', model=s.model(), stage=2, an=ts)
        return D.Verdict('unknown', stage=2, why=s.reason_unknown(), an=ts)


def replay_history(prog, doc, cli, hdr, d):
    """finds a concrete history from a FRESH support object (k = 1..3 updates, mock's library model) and runs it:
    build t0, setup(), apply the changes t0->t1->...->tk through the real setters, compare the target with the
    source value in tk"""
    import copy
    prog = copy.copy(prog)
    doc, cli, rej = D.translate(C.build_native(), os.path.join(d, 'cli'), [prog])
    if doc is None:
        return None, {'error': 'single-binding document rejected: %s' % rej}
    hdr = cxx.Header(cli.header)
    ts = TwoState(prog, hdr, 1, False, concrete_lib=True)
    ts.build()
    m = stores = None
    for k in range(1, MAX_UNROLL + 1):
        cs, wf, stores = ts.unrolled_query(k)
        s = z3.Solver()
        s.set('timeout', D.Z3_TIMEOUT_MS)
        s.add(*wf)
        s.add(*cs)
        if s.check() == z3.sat:
            m = s.model()
            break
    if m is None:
        return None, {'error': f'no history of <= {MAX_UNROLL} updates from a fresh support object exhibits it (concrete library model)'}
    ids = ts.s1.ids
    cls = ts.env.cls('VNode')
    keys = sorted(set(kk for st in stores for kk in st.base.vals))
    states = []
    for st in stores:
        states.append({(o, pn): (RP.z3_to_py(st.get(o, pn), cls.prop(pn).ty, m, ids), cls.prop(pn).ty) for (o, pn) in keys if cls.prop(pn).ty != 'QFont'})
    ty = prog.ty
    vlast, vnew = ts.unrolled_values
    exp = RP.canon(RP.z3_to_py(vnew, ty, m, ids), ty)
    exp1 = RP.canon(RP.z3_to_py(vlast, ty, m, ids), ty)
    nondefault = lambda v: RP.canon(*v) not in ('I:0', 'U:0', 'B:false', 'S:', 'L[]', 'P:null', 'D:nan', 'D:0000000000000000')
    steps = []
    for i in range(1, len(states)):
        steps.append({f'{o}.{p}': f'{RP.canon(*states[i - 1][(o, p)])} -> {RP.canon(*states[i][(o, p)])}' for (o, p) in sorted(states[i]) if RP.canon(*states[i - 1][(o, p)]) != RP.canon(*states[i][(o, p)])})
    info = {'model': {'initial state (non-default values)': {f'{o}.{p}': RP.canon(*v) for (o, p), v in sorted(states[0].items()) if nondefault(v)},
                      'changes per step (the last step is the un-notified one)': steps},
            'expected': f'{exp} (value of the source in the final state; was {exp1})', 'problems': ts.problems}
    RP.prepare(d, 'Doc', ts.env, cli.header)
    with open(os.path.join(d, 'Doc.qml'), 'w') as f:
        f.write(doc.text)
    lines = RP.driver_prologue('Doc', ts.env, states[0])
    lines.append('        sup.setup();')
    tprop = cls.prop(G.TARGET[ty]) if prog.group is None else None
    show = (lambda: f'verif::show({prog.target()}.{tprop.read}())') if tprop else (lambda: f'verif::show({prog.target()}.font().{prog.group[1]}())')
    lines.append(f'        std::cout << "AFTER-SETUP " << {show()} << "\\n";')
    bound = (prog.target(), G.TARGET[ty]) if prog.group is None else None
    for i in range(1, len(states)):
        obs_i = ts.unrolled_obs[i - 1]
        is_obs = lambda k2: (k2 in obs_i) and z3.is_true(m.eval(obs_i[k2], model_completion=True))
        # un-observed pairs first, observed ones last: the last update of the step then sees the complete state
        for (o, pn) in sorted(states[i], key=lambda k2: (is_obs(k2), k2)):
            if (o, pn) == bound:
                continue
            v, t = states[i][(o, pn)]
            if RP.canon(v, t) != RP.canon(*states[i - 1][(o, pn)]):
                w = cls.prop(pn).write
                if w is None:
                    return None, dict(info, error=f'{o}.{pn} has no setter')
                lines.append(f'        {o}.{w}({RP.cxx_lit(v, t)});')
        lines.append(f'        std::cout << "STEP{i} " << {show()} << "\\n";')
    lines.append(f'        std::cout << "RESULT " << {show()} << "\\n";')
    lines += RP.driver_epilogue()
    out, err = RP.compile_run(d, lines)
    if out is None:
        info['actual'] = 'emitted header does not compile against the API generated from the same type information'
        return (True if ts.problems else None), dict(info, error=err)
    got = [l[7:] for l in out.split('\n') if l.startswith('RESULT ')]
    info['actual'] = ' / '.join(l for l in out.split('\n') if l.startswith(('AFTER-SETUP', 'STEP', 'RESULT', 'UNREACHABLE', 'ABORT')))
    info['summary'] = 'bound target is stale after an un-notified change'
    info['site'] = 'dependency tracking'
    if not got:
        return None, dict(info, error='driver produced no result (' + info['actual'] + '): ' + err[-300:])
    return got[0] != exp, info


def any_dynamic(ss):
    return 'prop' in repr(ss) or 'iprop' in repr(ss)


class C02Suite(S.Suite):
    def missing_function(self, p, doc, cli):
        """an accepted binding that reads object state has no update/eval code: it can never become current.
        Replay = the real CLI on a document holding only this binding."""
        import copy
        # does the value really depend on object state?  (z3: two states with different, defined values)
        ts = TwoState(p, None, len(doc.programs), False)
        v1, d1 = ts.ref_value(ts.s1)
        v2, d2 = ts.ref_value(ts.s2)
        w = z3.Solver()
        w.set('timeout', D.Z3_TIMEOUT_MS)
        w.add(*(list(ts.s1.wf()) + list(ts.s2.wf())))
        w.add(d1, d2, z3.Not(equal(v1, v2)))
        r = w.check()
        if r == z3.unsat:
            self.stats['state_independent_value_embedded_as_constant'] += 1
            return
        if r != z3.sat:
            self.stats['undecided'] += 1
            return
        self.stats['dynamic_binding_without_code'] += 1
        q = copy.copy(p)
        d = C.new_replay_dir(self.res.prop, f'nocode-{self.stats["dynamic_binding_without_code"]:02d}')
        doc1, cli1, rej = D.translate(self.qmluic, os.path.join(d, 'cli'), [q])
        if doc1 is None:
            self.res.inconc(f'single-binding document rejected at replay: {rej}')
            return
        hdr1 = cxx.Header(cli1.header)
        with open(os.path.join(d, 'Doc.qml'), 'w') as f:
            f.write(doc1.text)
        with open(os.path.join(d, 'uisupport_doc.h'), 'w') as f:
            f.write(cli1.header)
        with open(os.path.join(d, 'doc.ui'), 'w') as f:
            f.write(cli1.ui or '')
        if ('eval' + q.suffix()) in hdr1.funcs:
            self.res.inconc(f'binding without code in the batch document has code when translated alone:\n{p.source()}')
            return
        self.res.violation({'site': 'binding selection', 'shape': p.tag},
                           f'accepted binding reads object state but no update/eval code is generated for it (setup() never connects it; the target stays at its .ui value):\n{p.source()}', d)


    def one(self, p, doc, cli, hdr, query_name, make_query, replay_fn):
        st = self.stats
        try:
            v = decide(p, hdr, len(doc.programs), st)
        except cxx.Unsupported as u:
            st['unsupported_shape'] += 1
            self.res.inconc(f'emitted code outside the modelled subset: {u} in\n{p.source()}')
            return
        except L.IllTyped:
            st['ill_typed_late'] += 1
            return
        if v.status in ('no-function', 'no-value'):
            if v.status == 'no-function' and (L.has_dynamic(p.body) if p.form == 'expr' else any_dynamic(p.body)):
                self.missing_function(p, doc, cli)
                return
            st['folded_to_constant(no function)'] += 1
            return
        st['programs'] += 1
        self.by_tag[p.tag] += 1
        self.paths += len(v.an.impl_results)
        st['observer_slots'] += len(v.an.slots)
        st['static_connections'] += len(v.an.static)
        if v.status == 'unsat':
            if st['programs'] % 37 == 1:
                # vacuity witness: without the "observed pairs agree" conjunct the two states must be able to
                # give different values (otherwise the staleness query would be unsat for a trivial reason)
                ts = v.an
                w = z3.Solver()
                w.set('timeout', 5000)
                w.add(*(list(ts.s1.wf()) + list(ts.s2.wf())))
                _, d1 = ts.ref_value(ts.s1)
                _, d2 = ts.ref_value(ts.s2)
                w.add(d1, d2, z3.Not(equal(ts.v1, ts.v2)))
                st['witnesses_checked'] += 1
                if w.check() == z3.sat:
                    st['witnesses_sat'] += 1
            if len(self.samples) < 6 and (v.an.slots or len(self.samples) < 2):
                self.samples.append({'qml': p.source(), 'emitted': '\n'.join(hdr.funcs['eval' + p.suffix()].body), 'static_connections': v.an.static,
                                     'observer_slots': {k: s[1] for k, s in v.an.slots.items()}, 'query': 'two-state staleness', 'result': f'unsat (stage {v.stage})'})
            return
        if v.status == 'unknown':
            st['undecided'] += 1
            st['programs'] -= 1
            self.by_tag[p.tag] -= 1
            self.undecided.append({'qml': p.source(), 'why': v.why})
            return
        st['sat'] += 1
        if self.nreplay >= S.MAX_REPLAYS:
            st['sat_not_replayed(cap)'] += 1
            return
        self.nreplay += 1
        d = C.new_replay_dir(self.res.prop, f'{self.nreplay:03d}')
        try:
            ok, info = replay_history(p, doc, cli, hdr, d)
        except Exception:
            import traceback
            ok, info = None, {'error': traceback.format_exc()[-1500:]}
        info['qml'] = p.source()
        import json
        with open(os.path.join(d, 'info.json'), 'w') as f:
            json.dump(info, f, indent=1, default=str)
        if ok:
            desc = f"stale binding: {info.get('summary', '')}\n{p.source()}\nhistory: {info.get('model')}\nexpected: {info.get('expected')}\nactual:   {info.get('actual')}\nfacts: {info.get('problems')}"
            self.res.violation({'site': 'dependency tracking', 'shape': p.tag}, desc, d)
        elif ok is False:
            self.res.inconc(f'sat model did not reproduce natively for\n{p.source()}\nexpected {info.get("expected")} actual {info.get("actual")} (see {d})')
        else:
            self.res.inconc(f'replay failed for {p.source()[:200]}: {str(info.get("error"))[:500]} (see {d})')


REJECT = [
    ('ival: a.quiet', 'unobservable property'), ('ival: a.next.quiet', 'unobservable property'), ('ival: quiet + 1', 'unobservable property'),
    ('ival: this.quiet', 'unobservable property'), ('ival: { let p = a; return p.quiet }', 'unobservable property'),
    ('ival: { let p = a.next; return p.quiet }', 'unobservable property'), ('flag: a.flag && a.quiet > 0', 'unobservable property'),
    ('ival: (a.flag ? a : b).quiet', 'unobservable property'),
    # a NOTIFY signal that cannot be resolved (first parameter of another type and no nullary overload / no such signal):
    # the property cannot be observed, so a binding that reads it must be rejected, not generated without a connection
    ('ival: a.odd', "invalid notify signal 'oddChanged'"), ('ival: a.lost', "invalid notify signal 'lostChanged'"),
    ('ival: a.next.odd + 1', "invalid notify signal 'oddChanged'"), ('ival: { let p = a.next; return p.lost }', "invalid notify signal 'lostChanged'"),
    ('flag: a.flag || a.odd > 0', "invalid notify signal 'oddChanged'"), ('ival: this.lost', "invalid notify signal 'lostChanged'"),
]
ACCEPT = ['ival: a.cval', 'ival: a.next.cval + cval', 'ival: { let p = a.next; return p.cval }', 'odd: a.ival', 'lost: a.ival + 1']


def rejection_side(su):
    out = []
    for src, frag in REJECT + [(a, None) for a in ACCEPT]:
        text = ('import qmluic.QtWidgets\nQDialog {\n  id: root\n  QVBoxLayout {\n    VNode { id: a }\n    VNode { id: b }\n    VNode { id: t0\n      '
                + src + '\n    }\n  }\n}\n')
        r = D.run_cli(su.qmluic, su.work, text, 'Rej')
        if frag is not None:
            ok = r.rc != 0 and r.header is None and frag in r.stderr
        else:
            ok = r.rc == 0
        out.append({'binding': src, 'must_be': 'rejected' if frag else 'accepted', 'ok': ok})
        if not ok:
            d = C.new_replay_dir('C02', 'reject-%d' % len(out))
            open(d + '/Rej.qml', 'w').write(text)
            open(d + '/stderr.txt', 'w').write(r.stderr)
            su.res.violation({'site': 'unobservable-property diagnostic', 'shape': src},
                             f'binding `{src}` must be {"rejected with: " + frag if frag else "accepted"}; rc={r.rc}', d)
    return out


CHAIN = """import qmluic.QtWidgets
QDialog {
  id: root
  QVBoxLayout {
    VNode { id: a }
    VNode { id: t0; ival: t1.ival + 1; sval: t2.sval + "!" }
    VNode { id: t1; ival: a.ival * 2 }
    VNode { id: t2; sval: a.next.sval }
    VNode { id: t3; ival: t1.ival - 1 }
  }
}
"""


def chain_setup_check(su):
    """parsed fact 'setup(): connect everything, then run every update once' + replay on a document whose bindings
    read each other's targets: after setup() every target must be current whatever the update order is"""
    r = D.run_cli(su.qmluic, su.work, CHAIN, 'Chain')
    if r.rc != 0 or r.header is None:
        su.res.inconc('chained-binding document rejected: ' + r.stderr[-300:])
        return {}
    hdr = cxx.Header(r.header)
    calls = hdr.setup_calls
    pos = {c: i for i, c in enumerate(calls)}
    # reader R of producer P's target is current after setup() iff NOT (update_R < update_P < setup_R):
    # either the producer ran first, or the reader was already connected when the producer ran
    pairs = [('T0Ival', 'T1Ival'), ('T0Sval', 'T2Sval'), ('T3Ival', 'T1Ival')]
    fact_ok = all(('setup' + x) in pos and ('update' + x) in pos for pr in pairs for x in pr) and len(calls) == len(set(calls)) == 10
    if fact_ok:
        for rd, pr in pairs:
            if pos['update' + rd] < pos['update' + pr] < pos['setup' + rd]:
                fact_ok = False
    out = {'setup_calls': calls, 'every_reader_connected_or_producer_first': fact_ok}
    if not fact_ok:
        d = C.new_replay_dir('C02', 'chain')
        env = D.make_env(4)
        del env.objects['b'], env.objects['c']
        RP.prepare(d, 'Chain', env, r.header)
        open(os.path.join(d, 'Chain.qml'), 'w').write(CHAIN)
        st = {('a', 'ival'): (5, 'int'), ('a', 'next'): ('a', 'ptr:VNode'), ('a', 'sval'): ('s', 'QString')}
        lines = RP.driver_prologue('Chain', env, st) + ['        sup.setup();',
                 '        std::cout << "RESULT " << verif::show(t0.ival()) << " " << verif::show(t0.sval()) << " " << verif::show(t3.ival()) << "\\n";'] + RP.driver_epilogue()
        o, e = RP.compile_run(d, lines)
        exp = 'RESULT I:11 ' + RP.canon('s!', 'QString') + ' I:9'
        out['replay'] = {'expected': exp, 'actual': (o or e).strip()[:300]}
        if o is not None and exp not in o:
            su.res.violation({'site': 'setup order', 'shape': 'chained bindings'},
                             f'after setup() a binding that reads another binding\'s target is stale: expected {exp}, got {o.strip()[:200]}; setup() = {calls}', d)
        else:
            su.res.inconc(f'setup() does not make all connections before the updates ({calls}) but the chained document did not expose it')
    return out


def run(res, args):
    tier = C.tier()
    rng = random.Random(C.seed())
    su = C02Suite(res, 'c02')
    chain = chain_setup_check(su)
    progs = pointer_programs(tier, rng)
    progs += [p for i, p in enumerate(c01.expr_programs(tier, rng)) if p.tag == 'expr-random' or i % 5 == 0]
    su.run(progs, 'two-state staleness', None, None, batch=30)
    rej = rejection_side(su)
    if su.stats['witnesses_sat'] == 0:
        res.inconc('no vacuity witness was satisfiable')
    su.finish({'rejection_side(enumerated, no solver)': rej, 'vacuity_witnesses_sat': su.stats['witnesses_sat'], 'setup_order(parsed fact + replay of a chained document)': chain,
               'observer_slots_encoded': su.stats['observer_slots'], 'static_connections_parsed': su.stats['static_connections'],
               'bounds': '<=5 objects a pointer may designate {null,a,b,c,owner}; .next chains <=3; observer memory arbitrary (invariant: valid connection => to the recorded live object); '
                         'reads by id / this / implicit this / locals (one-branch, reassigned, if/switch-selected) / ternary-selected pointers / one arm of && || ?:'})
    res.assumptions += [
        'Qt emits the NOTIFY signal on every change of a property (and the setter is the only way to change it); constant properties never change',
        'value of the source = reference semantics (C01 shows eval<B>() computes it); deletion of observed objects, queued connections, gadget sub-bindings are outside',
        'the (signal -> property) map and the "most arguments" overload rule come from the same metatypes JSON handed to the CLI',
    ]
