"""C12 Layout items land in the documented cells; per-row/column settings follow.
Engine A (Kani) on LayoutIndexCounter::next; engine C (MIR->SMT) on the index plumbing (added by mir part)."""
from .. import common as C, kani

LEVEL = 'proof'
P = 'uigen::layout::verif_kani::'
SPECS = [
    kani.Spec(P + 'c12_next_left_to_right', 'uigen::layout::LayoutIndexCounter::next',
              'columns in [1,65536]; arbitrary valid cursor (0<=next_row<=65536, 0<=next_column<columns); optional explicit row in [0,65535] / column in [0,columns-1]',
              'returned cell and successor cursor equal the left-to-right flow rule; cursor validity preserved (inductive step => any sequence length); no i32 overflow'),
    kani.Spec(P + 'c12_next_top_to_bottom', 'uigen::layout::LayoutIndexCounter::next',
              'rows in [1,65536]; arbitrary valid cursor; optional explicit row in [0,rows-1] / column in [0,65535]',
              'returned cell and successor cursor equal the top-to-bottom flow rule; validity preserved; no overflow'),
    kani.Spec(P + 'c12_counter_new_origin', 'uigen::layout::LayoutIndexCounter::new', 'count in [1,65536], both flows',
              'a fresh counter is at (0,0) and hands out (0,0) first'),
    kani.Spec(P + 'c12_witness_reachable', 'uigen::layout::LayoutIndexCounter::next', 'same assumptions as above',
              'vacuity witness: assert(false) after next() must be reported reachable', kind='witness'),
]
FRAGS = {'layout.rs': kani.FRAGMENTS['layout.rs']}


def run(res, args):
    kani.check_property(res, 'c12', FRAGS, SPECS)
    mir_part(res)
    res.assumptions += [
        'explicit row/column reach next() only inside the range parse_next lets through (that range check is a separate obligation)',
        'Outside the claim: span/alignment copying, conflict diagnostics (Vec/PropertyCode values), LayoutFlow::parse',
    ]


def mir_part(res):
    """engine C: index plumbing of the layout closures, parse_next and the index range check on the MIR"""
    import os
    from .. import mir as M
    from . import mir_obligations as O
    text = M.dump_mir()
    fns, consts = M.parse_functions(text), M.parse_consts(text)
    obs = O.c12_layout(fns, consts) + O.c12_insert(fns, consts) + O.c12_xml_attributes(fns, consts) + O.c12_item_and_flow(fns, consts)
    cov = res.coverage
    known = cov.setdefault('known_finding_obligations', [])
    for ob in obs:
        if ob['result'] == 'holds':
            cov['obligations'] += 1
            cov['discharged'] += 1
        elif ob['result'] == 'inconclusive':
            cov['obligations'] += 1
            res.inconc(f"{ob['name']}: {ob['detail']}")
        else:
            # replay every refuted array through the CLI
            arrays = set(m for m in O.ATTACHED if ('attributes__' + m) in ob['detail'])
            reproduced_any, new_any = False, False
            for a in sorted(arrays) or [None]:
                if a is None:
                    d = C.new_replay_dir('C12', 'mir-probes')
                    rep, info = O.replay_layout_probes(d)
                    ob.setdefault('replay', {})['probes'] = info
                    if rep:
                        reproduced_any = True
                        fp = info['failed_probes'][0]
                        new_any = res.violation({'site': ob['function'], 'probe': fp['probe']},
                                                f"{ob['name']}: {ob['detail'][:400]}\nCLI probe '{fp['probe']}': expected {fp['expected']}, got {fp['actual']}", d) or new_any
                    else:
                        res.inconc(f"{ob['name']}: refuted on the MIR ({ob['detail'][:300]}) but no CLI probe exposes it")
                    continue
                d = C.new_replay_dir('C12', 'mir-' + a)
                rep, info = O.replay_grid_attribute(a, d)
                ob.setdefault('replay', {})[a] = info
                if rep:
                    reproduced_any = True
                    new = res.violation({'site': 'process_grid_layout_children', 'array': a},
                                        f"{a} is recorded at the wrong index: {info['attribute']}=\"{info['actual']}\", documented \"{info['expected']}\" for a child in {info['cell']}\n{ob['detail']}", d)
                    new_any = new_any or new
                elif rep is False:
                    res.inconc(f"{ob['name']}: MIR counterexample for {a} did not reproduce through the CLI ({info})")
                else:
                    res.inconc(f"{ob['name']}: replay failed: {info}")
            if reproduced_any and not new_any:
                ob['decided_as'] = 'known finding'
                known.append(ob)
            else:
                cov['obligations'] += 1
        cov['samples'].append(ob)
    cov['functions_encoded'] = sorted(set(cov.get('functions_encoded', [])) | set(o['function'] for o in obs))
    cov['trusted_base'] += ['rustc nightly MIR pretty-printer', 'vlib/mir.py symbolic MIR interpreter', 'z3']
    cov['checker_cmd'] += ' ; cargo +nightly rustc -- -Zunpretty=mir + vlib/mir.py + z3'
