"""C12 Layout items land in the documented cells; per-row/column settings follow.
Engine A (Kani) on LayoutIndexCounter::next; engine C (MIR->SMT) on the index plumbing (added by mir part)."""
from .. import common as C, kani

LEVEL = 'proof'
P = 'uigen::layout::verif_kani::'
SPECS = [
    kani.Spec(P + 'c12_next_left_to_right', 'uigen::layout::LayoutIndexCounter::next',
              'columns in [1,65536]; arbitrary valid cursor (0<=next_row<=65536, 0<=next_column<columns); optional explicit row in [0,65535] / column in [0,columns-1]',
              'returned cell and successor cursor equal the left-to-right flow rule; cursor validity preserved (inductive step => any sequence length); no i32 overflow'),
    kani.Spec(P + 'c12_next_top_to_bottom', 'uigen::layout::LayoutIndexCounter::next',
              'rows in [1,65536]; arbitrary valid cursor; optional explicit row in [0,rows-1] / column in [0,65535]',
              'returned cell and successor cursor equal the top-to-bottom flow rule; validity preserved; no overflow'),
    kani.Spec(P + 'c12_counter_new_origin', 'uigen::layout::LayoutIndexCounter::new', 'count in [1,65536], both flows',
              'a fresh counter is at (0,0) and hands out (0,0) first'),
    kani.Spec(P + 'c12_witness_reachable', 'uigen::layout::LayoutIndexCounter::next', 'same assumptions as above',
              'vacuity witness: assert(false) after next() must be reported reachable', kind='witness'),
]
FRAGS = {'layout.rs': kani.FRAGMENTS['layout.rs']}


def run(res, args):
    kani.check_property(res, 'c12', FRAGS, SPECS)
    res.assumptions += [
        'explicit row/column reach next() only inside the range parse_next lets through (that range check is a separate obligation)',
        'Outside the claim: span/alignment copying, conflict diagnostics (Vec/PropertyCode values), LayoutFlow::parse',
    ]
