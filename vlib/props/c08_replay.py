"""C08 replay: the real CLI is run repeatedly (every process gets fresh hash seeds) on a document that puts several entries
into the hash container of the refuted site; two different outputs reproduce the order dependence."""
import hashlib, os, re, shutil
from .. import common as C
from ..tv import driver as D

DOC = """import qmluic.QtWidgets
QWidget {
    id: top
    windowTitle: "t"; toolTip: "tip"; statusTip: "s"; whatsThis: "w"; enabled: false; minimumWidth: 10; maximumWidth: 900; accessibleName: "n"
    font.family: "Monospace"; font.bold: true; font.italic: true; font.pointSize: 9; font.underline: true; font.kerning: false; font.strikeout: true
    sizePolicy.horizontalPolicy: QSizePolicy.Expanding; sizePolicy.verticalPolicy: QSizePolicy.Fixed; sizePolicy.horizontalStretch: 2; sizePolicy.verticalStretch: 3
    palette.window: "red"; palette.base: "blue"; palette.text: "green"; palette.button: "#123"; palette.highlight: "gray"; palette.windowText: "black"
    palette.disabled.text: "white"; palette.disabled.base: "yellow"
    QVBoxLayout {
        id: lay
        spacing: 3; contentsMargins.left: 1; contentsMargins.top: 2; contentsMargins.right: 3; contentsMargins.bottom: 4
        QCheckBox { id: src }
        QLineEdit { id: edit }
        QSpinBox { id: spin }
        QPushButton { id: btn; onClicked: console.log("clicked") }
        QLabel {
            id: lab
            text: edit.text + qsTr("x"); toolTip: edit.text; statusTip: edit.text; whatsThis: edit.text; enabled: src.checked; visible: src.checked
            indent: Math.max(spin.value, 1); wordWrap: src.checked
            font.bold: src.checked; font.italic: src.checked; font.underline: src.checked; font.family: edit.text; font.pointSize: spin.value
        }
        QSpacerItem { orientation: Qt.Vertical; sizeHint.width: 5; sizeHint.height: 40 }
    }
}
"""


def replay(ob, workdir, runs=24):
    os.makedirs(workdir, exist_ok=True)
    q = C.build_native()
    outs = {}
    first_err = None
    for i in range(runs):
        r = D.run_cli(q, workdir, DOC, 'Order')
        if r.rc != 0 or not r.ui:
            first_err = r.stderr[-400:]
            break
        h = hashlib.sha1(((r.ui or '') + '\0' + (r.header or '')).encode()).hexdigest()
        if h not in outs:
            outs[h] = (r.ui, r.header)
            with open(os.path.join(workdir, f'order-{len(outs)}.ui'), 'w') as f:
                f.write(r.ui)
            with open(os.path.join(workdir, f'uisupport_order-{len(outs)}.h'), 'w') as f:
                f.write(r.header or '')
    with open(os.path.join(workdir, 'README.txt'), 'w') as f:
        f.write(f'qmluic generate-ui --foreign-types /repo/contrib/metatypes Order.qml, run {runs} times: {len(outs)} distinct outputs (order-N.ui / uisupport_order-N.h)\n')
    if first_err:
        return False, {'error': 'replay document rejected: ' + first_err}
    return len(outs) > 1, {'runs': runs, 'distinct_outputs': len(outs)}
