"""C03, second part: constant bindings through the real CLI.  For a bounded-exhaustive family of CONSTANT binding
expressions the value element written into the .ui (parsed with an XML parser) is compared with the value the
reference encoder (vlib/tv/ref.py, z3 terms, evaluated by z3 under the empty model) gives to the same AST.
There is no symbolic input here: the solver only evaluates closed terms; the quantifier is over programs (enumeration).
It reaches what Kani cannot: tir/interpret.rs (evaluate_code), uigen/expr.rs conversions, literal text -> value -> XML text.
Constant expressions the translator turns into run-time code (e.g. a ternary on constants) are decided by the C01 value
query on their eval function instead."""
import collections, hashlib, itertools, os, shutil
import xml.etree.ElementTree as ET
import re
import z3
from .. import common as C
from ..tv import driver as D, gen as G, lang as L, ref as R, cxx, replay as RP, suite as S
from ..tv.sem import Prims, ListVal
from . import c01


def R_(ty, src, v):
    return ('rawlit', ty, src, v)


def const_programs(tier):
    progs = []
    add = lambda ty, body, tag: progs.append(D.Program('binding', ty, body, tag=tag))
    step = 1 if tier == 'thorough' else 2
    for ty in G.TYPES:
        for i, e in enumerate(itertools.chain(G.enum_depth1(ty), G.enum_pairs(ty))):
            if not L.has_dynamic(e) and i % step == 0:
                add(ty, e, 'const-fold')
    for p in c01.literal_programs():
        # the bare literal of every spelling
        lit = None
        b = p.body
        for x in (b[2], b[3]) if b[0] == 'bin' else ():
            if isinstance(x, tuple) and x[0] == 'rawlit':
                lit = x
        if lit is not None and lit[1] == 'QString' and any(ord(ch) < 32 and ch not in '\t\n\r' for ch in lit[3]):
            continue        # characters XML 1.0 cannot carry are C09's exclusion, not a value question
        if lit is not None:
            ty = {'int': 'int', 'double': 'double', 'QString': 'QString'}[lit[1]]
            add(ty, lit, 'const-literal-spelling')
            if lit[1] == 'int' and lit[3] < (1 << 31):
                add('uint', lit, 'const-literal-spelling')
                add('int', ('un', '-', lit), 'const-literal-spelling')
            if lit[1] == 'QString':
                add('QString', ('bin', '+', lit, ('lit', 'QString', '|')), 'const-literal-spelling')
                add('QStringList', ('arr', [lit, ('lit', 'QString', 'z')]), 'const-string-list')
    # via const/let locals (copies only)
    for ty, e in (('int', ('bin', '+', G.lit('int', 2), G.lit('int', 3))), ('double', ('bin', '*', G.lit('double', 1.5), G.lit('double', 4.0))),
                  ('QString', ('bin', '+', G.lit('QString', 'a'), G.lit('QString', 'b'))), ('bool', ('bin', '<', G.lit('int', 1), G.lit('int', 2))),
                  ('enum:Mode', ('enum', 'Mode', 'ModeC')), ('ptr:VNode', ('obj', 'b'))):
        add(ty, [('let', 'const', 'k', None, e), ('let', 'let', 's', None, ('local', 'k')), ('return', ('local', 's'))], 'const-via-locals')
        add(ty, [('let', 'let', 's', None, e), ('expr', ('local', 's'))], 'const-via-locals')
        add(ty, [('let', 'let', 's', None, e), ('block', [('let', 'let', 's', None, e)]), ('return', ('local', 's'))], 'const-via-locals')
    # enums and enum sets
    names = ['ModeA', 'ModeB', 'ModeC', 'ModeD']
    for n in names:
        add('enum:Mode', ('enum', 'Mode', n), 'const-enum')
    for a, b in itertools.permutations(names, 2):
        add('enum:Mode', ('bin', '|', ('enum', 'Mode', a), ('enum', 'Mode', b)), 'const-enum')
    add('enum:Mode', ('bin', '|', ('bin', '|', ('enum', 'Mode', 'ModeA'), ('enum', 'Mode', 'ModeD')), ('enum', 'Mode', 'ModeB')), 'const-enum')
    # strings: tr / notr
    for s in ('hello', '', 'a"b', 'x\ny', '%1 of %2', '\u00e9', '<&>', ' lead', 'trail ', 'a\tb'):
        add('QString', ('tr', s), 'const-tr-string')
        add('QString', G.lit('QString', s), 'const-string')
    # string lists
    ss = [G.lit('QString', 'a'), G.lit('QString', ''), G.lit('QString', 'b c'), G.lit('QString', '<x>')]
    add('QStringList', ('arr', []), 'const-string-list')
    for n in (1, 2, 3):
        for combo in itertools.product(ss, repeat=n):
            add('QStringList', ('arr', list(combo)), 'const-string-list')
    add('QStringList', ('arr', [('tr', 'a'), ('tr', 'b')]), 'const-string-list')
    # object references
    for o in ('a', 'b', 'c'):
        add('ptr:VNode', ('obj', o), 'const-object-ref')
    return progs


REJECT = ['1 / 0', '1 % 0', '9223372036854775807 + 1', '-9223372036854775807 - 2', '9223372036854775807 * 2', '1 << 64', '1 << -1', '1 >> 64', '1 >> -1',
          '(-9223372036854775807 - 1) / -1', '(-9223372036854775807 - 1) % -1', '-(-9223372036854775807 - 1)', '18446744073709551616', '9223372036854775808']


def string_kind(e):
    """('tr'|'notr') marking the reference gives to a constant string expression"""
    return 'tr' if e[0] == 'tr' else 'notr'


def expected_value(prog):
    """-> ('value', python value, type) | ('undefined',) from the reference encoder, evaluated by z3"""
    prog.idx = 0
    an = D.Analysis(prog, None, 1, False, concrete_lib=True)
    outs = an.ref_side()
    s = z3.Solver()
    s.check()
    m = s.model()
    for (p, kind, rv) in outs:
        if not z3.is_true(m.eval(p.pc, model_completion=True)):
            continue
        x = rv if kind == 'return' else p.cv
        if x is None or x[0] is None:
            return ('undefined',)
        if not z3.is_true(m.eval(z3.And(p.d, p.vok), model_completion=True)):
            return ('undefined',)
        return ('value', RP.z3_to_py(x[0], x[1], m, an.store.ids), x[1], x[2])
    return ('undefined',)


def ui_value(ui_root, target, prop):
    """-> parsed value element of <widget name=target>/<property name=prop>"""
    for w in ui_root.iter('widget'):
        if w.get('name') == target:
            for p in w.findall('property'):
                if p.get('name') == prop:
                    ch = list(p)
                    return ch[0] if len(ch) == 1 else None
    return None


def compare(el, exp, ty, expr):
    """-> None if the element carries the expected value, else a description"""
    v = exp
    if el is None:
        return 'no value element for the property'
    if ty in ('int', 'uint', 'double'):
        if el.tag not in ('number', 'double'):
            return f'<{el.tag}> instead of <number>'
        try:
            got = float(el.text)
        except (TypeError, ValueError):
            return f'number text {el.text!r}'
        if ty != 'double':
            # a <number> is read into a 32-bit property by uic / QFormBuilder with the C++ integral conversion:
            # `(-2 as uint)` written as -2 denotes the same property value as 4294967294 (compared modulo 2^32;
            # the spelling must still be a plain decimal integer)
            t = el.text.strip()
            if not re.fullmatch(r'-?\d+', t) or (int(t) - v) % (1 << 32) != 0:
                return f'number {el.text!r}, expected {v}'
            return None
        if got != v and not (got != got and v != v):
            return f'number {el.text!r} = {got!r}, expected {v!r}'
        return None
    if ty == 'bool':
        return None if (el.tag == 'bool' and el.text == ('true' if v else 'false')) else f'<{el.tag}>{el.text}</{el.tag}>, expected bool {v}'
    if ty == 'QString':
        kind = string_kind(expr) if isinstance(expr, tuple) else 'notr'
        text = el.text or ''
        if kind == 'tr' and expr[0] == 'tr':
            v = expr[1]
        if el.tag != 'string' or text != v:
            return f'<{el.tag}>{text!r}, expected string {v!r}'
        notr = el.get('notr') == 'true'
        if notr != (kind == 'notr'):
            return f'translatable marking: notr={notr}, expected {kind}'
        return None
    if ty in ('QStringList', 'cempty'):
        if el.tag != 'stringlist':
            return f'<{el.tag}> instead of <stringlist>'
        got = [(c.text or '') for c in el.findall('string')]
        want = [x[1] if x[0] == 'tr' else None for x in expr[1]] if expr[0] == 'arr' else None
        vals = [w if w is not None else s for w, s in zip(want, v)] if want is not None else v
        if got != vals:
            return f'string list {got!r}, expected {vals!r}'
        alltr = expr[0] == 'arr' and expr[1] and all(x[0] == 'tr' for x in expr[1])
        if (el.get('notr') == 'true') == alltr:
            return f'translatable marking of the list: notr={el.get("notr")}, expected {"tr" if alltr else "notr"}'
        return None
    if ty.startswith('enum:'):
        if el.tag not in ('enum', 'set'):
            return f'<{el.tag}> instead of <enum>/<set>'
        names = [x.split('::')[-1] for x in (el.text or '').split('|')]
        from ..tv.env import ENUMS
        d = dict(ENUMS[ty[5:]])
        if any(n not in d for n in names):
            return f'enum text {el.text!r}'
        got = 0
        for n in names:
            got |= d[n]
        if got != v:
            return f'enum {el.text!r} = {got}, expected value {v}'
        if not all(x.startswith('VNode::') for x in (el.text or '').split('|')):
            return f'enum variants are not qualified: {el.text!r}'
        return None
    if ty.startswith('ptr:'):
        return None if (el.tag == 'cstring' and el.text == v) else f'<{el.tag}>{el.text}, expected object reference {v}'
    return f'type {ty} not comparable'


def run(res):
    tier = C.tier()
    qmluic = C.build_native()
    work = os.path.join(C.CACHE, 'tv', 'c03c-%d' % os.getpid())
    shutil.rmtree(work, ignore_errors=True)
    stats = collections.Counter()
    stats['solver_s'] = 0.0
    by_tag = collections.Counter()
    samples, problems, seen = [], [], set()
    todo = []
    for p in const_programs(tier):
        key = hashlib.sha1((str(p.ty) + p.source()).encode()).hexdigest()
        if key in seen:
            continue
        seen.add(key)
        try:
            ev = expected_value(p)
        except L.IllTyped:
            stats['ill_typed_by_reference'] += 1
            continue
        except Exception as e:
            stats['reference_cannot_evaluate'] += 1
            continue
        if ev[0] != 'value':
            stats['undefined_by_reference(skipped)'] += 1
            continue
        todo.append((p, ev))
    for k in range(0, len(todo), 40):
        chunk = todo[k:k + 40]
        doc, cli, rej = D.translate(qmluic, work, [p for p, _ in chunk])
        for p, msg in rej:
            stats['rejected_by_cli'] += 1
            if not msg.startswith(('integer overflow', 'integer conversion')):
                problems.append((p, 'a defined constant expression is rejected: ' + msg, None))
        if doc is None:
            continue
        try:
            root = ET.fromstring(cli.ui)
        except ET.ParseError as e:
            res.inconc(f'.ui is not well-formed XML: {e}')
            continue
        hdr = cxx.Header(cli.header)
        evs = {id(p): ev for p, ev in chunk}
        for p in doc.programs:
            ev = evs[id(p)]
            by_tag[p.tag] += 1
            stats['programs'] += 1
            fname = 'eval' + p.suffix()
            if fname in hdr.funcs:
                # turned into run-time code: decided by the value query on the emitted function
                v = D.decide(p, hdr, len(doc.programs), D.value_query, stats)
                stats['constant_compiled_to_code(value query)'] += 1
                if v.status == 'sat':
                    problems.append((p, 'emitted eval function of a constant expression returns another value', None))
                elif v.status != 'unsat':
                    stats['undecided'] += 1
                continue
            el = ui_value(root, p.target(), G.TARGET[p.ty])
            expr = ev[3] if len(ev) > 3 else None
            diff = compare(el, ev[1], ev[2], expr if isinstance(expr, tuple) else (p.body if isinstance(p.body, tuple) else None))
            stats['ui_values_compared'] += 1
            if diff:
                problems.append((p, diff, ET.tostring(el, encoding='unicode') if el is not None else None))
            elif len(samples) < 8 and stats['ui_values_compared'] % 60 == 1:
                samples.append({'qml': p.source(), 'reference_value': repr(ev[1]), 'ui': ET.tostring(el, encoding='unicode').strip()})
    # rejection side: undefined constants must not be embedded
    rej_out = []
    for e in REJECT:
        text = f'import qmluic.QtWidgets\nQWidget {{\n  QSpinBox {{ maximum: {e} }}\n}}\n'
        r = D.run_cli(qmluic, work, text, 'Rej')
        ok = r.rc != 0 and r.ui is None
        rej_out.append({'expression': e, 'rejected': ok})
        if not ok:
            d = C.new_replay_dir('C03', 'undefined-%d' % len(rej_out))
            open(d + '/Rej.qml', 'w').write(text)
            res.violation({'site': 'undefined constant', 'shape': e}, f'a constant expression whose value is undefined is embedded instead of rejected: {e}', d)
    for n, (p, why, got) in enumerate(problems[:6]):
        d = C.new_replay_dir('C03', f'const-{n + 1}')
        doc = D.Doc([p])
        open(os.path.join(d, 'Doc.qml'), 'w').write(doc.text)
        open(os.path.join(d, 'README.txt'), 'w').write(f'qmluic generate-ui --foreign-types /repo/contrib/metatypes --foreign-types /verif/data/vnode_metatypes.json Doc.qml\n{why}\n.ui element: {got}\n')
        res.violation({'site': 'constant in .ui', 'shape': p.tag}, f'value embedded in the .ui differs from the value of the source expression: {why}\n{p.source()}\n.ui: {got}', d)
    stats['mismatches'] = len(problems)
    shutil.rmtree(work, ignore_errors=True)
    res.coverage['constants_in_ui(CLI output vs reference encoder; enumeration of programs, closed terms evaluated by z3)'] = {
        'programs': stats['programs'], 'by_family': dict(by_tag), 'counts': {k: v for k, v in stats.items() if k not in ('programs', 'solver_s', 'queries')},
        'samples': samples, 'rejection_side': rej_out,
        'functions_reached': 'tir::interpret::evaluate_code, uigen::expr::{SerializableValue::build, parse_as_value_type, unwrap_into_simple_value}, qmlast::astutil::{parse_number_str, parse_string}, XML text writer'}
