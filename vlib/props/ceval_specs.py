"""Kani obligations over tir/ceval.rs shared by C01 (value of folds), C03 (value + rejection side) and
C05 (admissible-type tables).  Times measured on the pinned tree, one core each."""
from .. import kani

P = 'tir::ceval::verif_kani::'
Q, T = ('quick', 'thorough'), ('thorough',)


def S(name, fn, bound, covers, tiers=Q, **kw):
    return kani.Spec(P + name, 'tir::ceval::' + fn, bound, covers, tiers, **kw)


FOLD = [
    S('ceval_int_add', 'eval_binary_arith_expression', 'all 2^128 pairs of i64', 'l+r equals the i128 sum, or IntegerOverflow iff it does not fit i64'),
    S('ceval_int_sub', 'eval_binary_arith_expression', 'all 2^128 pairs of i64', 'l-r equals the i128 difference, or IntegerOverflow iff it does not fit'),
    S('ceval_int_mul', 'eval_binary_arith_expression', 'all 2^128 pairs of i64', 'l*r equals the i128 product, or IntegerOverflow iff it does not fit', T),
    S('ceval_int_div_small', 'eval_binary_arith_expression', '|l|,|r| <= 256 (full-width bit-blasted division does not finish; operand order at full width is decided on the MIR)',
      'l/r truncates toward zero (relational oracle q*r+m=l, |m|<|r|, sign(m)=sign(l)); r=0 rejected'),
    S('ceval_int_rem_small', 'eval_binary_arith_expression', '|l|,|r| <= 256', 'l%r has the sign of the dividend, |m|<|r|, r | l-m; r=0 rejected'),
    S('ceval_int_div_boundary', 'eval_binary_arith_expression', '{MIN,MIN+1,MAX-1,MAX} x {-1,0,1,2}', 'as above incl. MIN/-1 rejected'),
    S('ceval_int_rem_boundary', 'eval_binary_arith_expression', '{MIN,MIN+1,MAX-1,MAX} x {-1,0,1,2}', 'as above incl. MIN%-1 rejected'),
    S('ceval_int_unary', 'eval_unary_arith_expression, eval_unary_bitwise_expression', 'all i64', '-v (MIN rejected), +v, ~v = -v-1'),
    S('ceval_int_bitwise', 'eval_binary_bitwise_expression', 'all pairs of i64, all three operators, arbitrary bit position', '& ^ | bit by bit'),
    S('ceval_bool_ops', 'eval_binary_bitwise_expression, eval_unary_logical_expression, eval_comparison_expression', 'all bools',
      '& ^ | ! == != on bool (ordering of bools excluded: Kani mis-models it)'),
    S('ceval_shift_count_range', 'eval_shift_expression', 'all pairs of i64, both operators', 'exactly the counts 0..=63 are accepted (incl. counts that are small only modulo 2^32)'),
    S('ceval_shift_left', 'eval_shift_expression', 'all pairs of i64', 'count outside [0,63] rejected; bit i of l<<r is bit i-r of l (modulo 2^64)', T),
    S('ceval_shift_right', 'eval_shift_expression', 'all pairs of i64', 'count outside [0,63] rejected; arithmetic shift: bit i of l>>r is bit i+r of l or the sign', T),
    S('ceval_int_comparison', 'eval_comparison_expression', 'all pairs of i64, six operators', 'result equals the sign of the i128 difference'),
    S('ceval_float_comparison', 'eval_comparison_expression', 'all pairs of f64 incl. NaN/inf/-0, six operators', 'IEEE 754 comparison (NaN unordered, +0 == -0)'),
    S('ceval_float_unary', 'eval_unary_arith_expression', 'all f64', 'negation flips exactly the sign bit; + is identity (bitwise)'),
    S('ceval_float_add', 'eval_binary_arith_expression', 'all pairs of f64', 'bit-for-bit equal to IEEE l+r in source order (NaN payload excluded)'),
    S('ceval_float_sub', 'eval_binary_arith_expression', 'all pairs of f64', 'bit-for-bit equal to IEEE l-r in source order'),
    S('ceval_float_mul', 'eval_binary_arith_expression', 'all pairs of f64', 'bit-for-bit equal to IEEE l*r', T),
    S('ceval_string_concat_compare', 'eval_binary_arith_expression, eval_comparison_expression', 'strings from {"", "a", "b", "ab"}',
      'concatenation keeps source order; six comparisons follow byte-wise lexicographic order'),
    S('ceval_witness_reachable', 'eval_binary_arith_expression', 'all pairs of i64', 'vacuity witness: assert(false) on the Ok path must be reachable', kind='witness'),
]

TYPES = [
    S('ceval_types_comparison', 'eval_comparison_expression', 'all 49 kind pairs x 6 operators (bool/int values symbolic)', 'Ok iff both operands have one common kind (and it is not []); result is Bool'),
    S('ceval_types_binary_bitwise', 'eval_binary_bitwise_expression', 'all 49 kind pairs x 3 operators', 'Ok iff both bool or both integer; result keeps the kind'),
    S('ceval_types_binary_arith', 'eval_binary_arith_expression', 'all 49 kind pairs x 5 operators', 'Ok iff int/int, double/double or string+string; bool arithmetic, mixed kinds, string - * / % rejected', T),
    S('ceval_types_shift', 'eval_shift_expression', 'all 49 kind pairs x 2 operators, counts in [1,40]', 'Ok iff integer/integer', T),
    S('ceval_types_unary', 'eval_unary_*_expression', 'all 7 kinds x 4 operators', '+ - on int/double only; ~ on int only; ! on bool only', T),
]
FRAG = {'ceval.rs': kani.FRAGMENTS['ceval.rs']}
