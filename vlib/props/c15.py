"""C15 (partial): generate-ui writes only where it should, through a temporary file, and only when needed.
Engine C on the MIR of the command-line crate (src/main.rs) and of qtname.rs; all paths of each function, fallible steps
as forking models, z3 on the path conditions / on z3 strings:

P1  the path-component filter accepts exactly `.` and normal components (all variants of camino::Utf8Component);
P2  generate_ui: with an output directory and a source path that fails the filter the command returns Err before anything
    is loaded or generated;
P3  FileNameRules: X -> case(X ++ ".ui") and case("uisupport_" ++ X ++ "." ++ suffix), case = ASCII lower-casing iff the
    rule says so (all strings);
P4  generate_ui_file: both output paths are source.with_file_name(<rule name>) -- joined under the output directory iff
    one is given; the header is written only in the Some(ui_support) case;
P5  a writer is reached only if reading the existing output failed or gave different bytes (compare-then-write), and the
    comparison closure compares with exactly the freshly serialised buffer;
P6  with_output_file: create_dir_all(parent) -> NamedTempFile::new_in(parent) -> the writer closure -> set_permissions ->
    persist(path), in this order; persist is never reached after a failed step and the temporary file lives in the target's
    own directory (so the rename cannot cross file systems)."""
import glob, json, os, re, time
import z3
from .. import common as C, mir as M
from . import mir_obligations as O, c08, c04
from .c10_names import Engine as StrEngine, as_str, S as STR

LEVEL = 'proof'


def canon(v, d=0):
    if d > 30:
        return '..'
    if isinstance(v, M.Ref):
        return '&' + canon(v.target, d + 1)
    if isinstance(v, M.Call):
        return v.callee.split('::<')[0].split('::')[-1] + '(' + ', '.join(canon(x, d + 1) for x in v.args) + ')'
    if isinstance(v, M.Opaque):
        return v.name
    if isinstance(v, M.Tup):
        return '(' + ', '.join(canon(x, d + 1) for x in v.items) + ')'
    if isinstance(v, M.Adt):
        return v.path + '[' + ', '.join(canon(x, d + 1) for x in v.fields) + ']'
    return str(v)


def is_err(r):
    return (isinstance(r, M.Adt) and r.path.endswith('Err')) or (isinstance(r, M.Call) and r.callee.endswith('from_residual'))


def camino_component_variants():
    for d in sorted(glob.glob(os.path.expanduser('~/.cargo/registry/src/*/camino-*/src/lib.rs')), reverse=True):
        text = open(d).read()
        m = re.search(r'pub enum Utf8Component<[^>]*>\s*\{(.*?)\n\}', text, re.S)
        if m:
            return re.findall(r'^\s*([A-Z]\w*)\s*[\(\{,]', m.group(1), re.M)
    raise M.MirError('camino source not found')


def p1_filter(binfns, consts):
    ob = O._ob('c15_mir_path_component_filter', 'qmluic-cli::generate_ui::{closure}::{closure} (src/main.rs)', 'every variant of camino::Utf8Component',
               'a source path component is accepted iff it is `.` (CurDir) or a normal component: prefixes, the root and `..` are refused')
    t0 = time.time()
    bad = []
    try:
        cands = [f for n, f in binfns.items() if re.match(r'generate_ui::\{closure#\d+\}::\{closure#\d+\}$', n) and 'Utf8Component' in f.header]
        if len(cands) != 1:
            raise M.MirError(f'{len(cands)} component closures')
        variants = camino_component_variants()
        D = z3.Int('component_kind')
        it = M.Interp(cands[0], consts, arg_values={'_2': M.Opaque('component')})
        paths = [q for q in it.run() if q.end == 'return']
        d = it.leaf('component.discr', 'isize')
        want = z3.Or([d == variants.index(v) for v in ('CurDir', 'Normal')])
        for q in paths:
            r = q.ret
            if not z3.is_expr(r):
                bad.append(f'returns {r!r}')
                continue
            O._unsat(q.pc + [d >= 0, d < len(variants), r != want], bad, 'the filter accepts a prefix / root / `..` component or refuses a normal one')
        ob['variants'] = variants
    except M.MirError as e:
        O._finish(ob, t0, ['MIR: ' + str(e)], unknown=True)
        ob['detail'] = 'MIR: ' + str(e)
        return ob
    return O._finish(ob, t0, bad)


def p2_refuses_early(binfns, consts):
    ob = O._ob('c15_mir_escaping_paths_refused_first', 'qmluic-cli::generate_ui (src/main.rs)', 'all paths; every call result symbolic',
               'if an output directory is given and some source path fails the component filter, the command returns Err without loading types, scanning directories or generating anything; '
               'generate_ui_file is only reached on paths where that test did not fire')
    t0 = time.time()
    bad = []
    try:
        fn = M.find_fn(binfns, r'^generate_ui$')
        it = M.Interp(fn, consts, call_model=c04.forking_try)
        it.max_depth = 3000

        def other_loops(c, it_, p):
            r = c04.forking_try(c, it_, p)
            if r is not None:
                return r
            if c.callee.endswith('as Iterator>::next'):
                if not hasattr(p, 'heap'):
                    p.heap = {}
                key = '#loop:' + canon(c08.deref(c.args[0]))
                k = p.heap.get(key, 0)
                p.heap[key] = k + 1
                return M.Adt('Option::Some', [M.Opaque(f'item#{c.seq}')]) if k < 1 else M.Adt('Option::None', [])
            return None
        it.call_model = other_loops
        paths = [q for q in it.run(max_paths=5000) if q.end == 'return']
        seen_refusal = 0
        for q in paths:
            if M.check(q.pc) == 'unsat':
                continue
            names = [c.callee.split('::<')[0] for c in q.calls]
            anyc = [c for c in q.calls if c.callee.split('::<')[0].endswith('::any') or c.callee.endswith('Iterator>::any')]
            allc = [c for c in q.calls if (c.callee.split('::<')[0].endswith('::all') or c.callee.endswith('Iterator>::all')) and 'sources' in canon(c.args[0])]
            if allc:
                bad.append('the source paths are tested with all() instead of any(): one legal source lets the others through')
            some = [c for c in q.calls if c.callee.split('::<')[0].endswith('is_some')]
            work = [n for n in names if n.endswith(('load_type_map', 'populate_directories', 'generate_ui_file', 'BuildContext::prepare'))]
            if some and not anyc:
                # `is_some() && any(..)`: without an output directory the filter is not consulted; with one it must be
                if M.check(q.pc + [it.leaf(some[0].name + '.int', 'isize') != 0]) != 'unsat':
                    bad.append('an output directory is given but the source paths are not filtered')
            elif some and anyc:
                fired = z3.And(it.leaf(some[0].name + '.int', 'isize') != 0, it.leaf(anyc[0].name + '.int', 'isize') != 0)
                r = M.check(q.pc + [fired])
                if r != 'unsat':
                    seen_refusal += 1
                    if work:
                        bad.append(f'the path test fires but {work[0].split("::")[-1]} is still called')
                    if not is_err(q.ret):
                        bad.append('the path test fires but the command does not return Err')
            elif any(n.endswith('generate_ui_file') for n in names):
                bad.append('generate_ui_file is reached on a path that never ran the path test')
        if seen_refusal == 0:
            bad.append('no path on which the test fires (stale)')
        ob['paths'] = len(paths)
    except M.MirError as e:
        O._finish(ob, t0, ['MIR: ' + str(e)], unknown=True)
        ob['detail'] = 'MIR: ' + str(e)
        return ob
    return O._finish(ob, t0, sorted(set(bad)))


def p8_options(binfns, consts):
    ob = O._ob('c15_mir_command_line_options_reach_the_rules', 'qmluic-cli::generate_ui (src/main.rs)', 'all paths that prepare a build context',
               'file names are lower-cased iff --no-lowercase-file-name is absent, and the mode is Reject iff --no-dynamic-binding is given (Generate otherwise)')
    t0 = time.time()
    bad = []
    try:
        fn = M.find_fn(binfns, r'^generate_ui$')
        af = O.struct_fields('src/main.rs', 'GenerateUiArgs')
        il, idn = af.index('no_lowercase_file_name'), af.index('no_dynamic_binding')
        rf = O.struct_fields('lib/src/qtname.rs', 'FileNameRules')

        def model(c, it_, p):
            r = c04.forking_try(c, it_, p)
            if r is not None:
                return r
            if c.callee.endswith('as Iterator>::next'):
                if not hasattr(p, 'heap'):
                    p.heap = {}
                key = '#loop:' + canon(c08.deref(c.args[0]))
                k = p.heap.get(key, 0)
                p.heap[key] = k + 1
                return M.Adt('Option::Some', [M.Opaque(f'item#{c.seq}')]) if k < 1 else M.Adt('Option::None', [])
            return None
        it = M.Interp(fn, consts, call_model=model)
        it.max_depth = 3000
        n = 0
        for q in it.run(max_paths=5000):
            if q.end != 'return' or M.check(q.pc) == 'unsat':
                continue
            for c in q.calls:
                if not c.callee.split('::<')[0].endswith('BuildContext::prepare'):
                    continue
                n += 1
                rules, mode = c08.deref(c.args[1]), c08.deref(c.args[2])
                if not (isinstance(rules, M.Adt) and rules.path.endswith('FileNameRules') and len(rules.fields) == len(rf)):
                    bad.append(f'the file name rules are not built in place: {canon(rules)[:80]}')
                    continue
                low = rules.fields[rf.index('lowercase')]
                if canon(low) != f'Not(_2.*.{il})':
                    bad.append(f'lowercase is {canon(low)[:60]}, expected !args.no_lowercase_file_name')
                flag = it.leaf(f'_2.*.{idn}', 'bool')
                kind = mode.path.split('::')[-1] if isinstance(mode, M.Adt) else canon(mode)
                if kind == 'Reject':
                    O._unsat(q.pc + [z3.Not(flag)], bad, 'Reject mode is selected without --no-dynamic-binding')
                elif kind == 'Generate':
                    O._unsat(q.pc + [flag], bad, 'Generate mode is selected although --no-dynamic-binding is given')
                else:
                    bad.append(f'generate-ui selects the mode {kind}')
        if n == 0:
            bad.append('no path prepares a build context (stale)')
        ob['contexts'] = n
    except (M.MirError, ValueError) as e:
        O._finish(ob, t0, ['MIR: ' + str(e)], unknown=True)
        ob['detail'] = 'MIR: ' + str(e)
        return ob
    return O._finish(ob, t0, sorted(set(bad))[:5])


def p3_file_names(fns, consts):
    ob = O._ob('c15_mir_file_name_rules', 'qtname::FileNameRules::{type_name_to_ui_name, type_name_to_ui_support_cxx_header_name, apply_case_change}',
               'every type name and header suffix (z3 strings), both values of `lowercase`; format! decoded from the MIR template; make_ascii_lowercase as an uninterpreted function',
               'X.qml -> case(X ++ ".ui") and case("uisupport_" ++ X ++ "." ++ suffix), lower-cased iff the rule says so')
    t0 = time.time()
    bad = []
    try:
        T, SUF, LOW = z3.String('type_name'), z3.String('suffix'), z3.Bool('lowercase')
        LOWER = z3.Function('ascii_lowercase', STR, STR)
        fields = O.struct_fields('lib/src/qtname.rs', 'FileNameRules')
        rules = M.Adt('FileNameRules', [SUF if f == 'cxx_header_suffix' else LOW for f in fields], fields)
        eng = StrEngine(fns, consts, (False,))
        base = eng.call

        def call(c, it, p):
            last = c.callee.split('::<')[0].split('::')[-1]
            if last == 'apply_case_change':
                fn = M.find_fn(fns, r'qtname\.rs:\d+:\d+: \d+:\d+>::apply_case_change$')
                av = {'_1': c.args[0], '_2': c.args[1]}
                it2 = eng.interp(fn, av)
                it2.call_model = call
                q0 = M.Path()
                q0.pc, q0.heap = list(p.pc), dict(getattr(p, 'heap', {}) or eng.initial_heap())
                outs = []
                for q in it2.run(path=q0):
                    if q.end == 'return':
                        outs.append((q.pc[len(p.pc):], q.heap, q.ret))
                return M.Fork(outs)
            if last == 'make_ascii_lowercase':
                # in-place on the String held by the caller's local: modelled through the value handed back below
                s = as_str(c.args[0])
                p.heap['#lowered'] = LOWER(s)
                return M.Tup([])
            if last in ('deref_mut', 'as_mut_str') and as_str(c.args[0]) is not None:
                return c.args[0]
            return base(c, it, p)
        for name, want in (('type_name_to_ui_name', z3.Concat(T, z3.StringVal('.ui'))),
                           ('type_name_to_ui_support_cxx_header_name', z3.Concat(z3.StringVal('uisupport_'), T, z3.StringVal('.'), SUF))):
            fn = M.find_fn(fns, r'qtname\.rs:\d+:\d+: \d+:\d+>::' + name + '$')
            it = eng.interp(fn, {'_1': M.Ref(rules), '_2': T})
            it.call_model = call
            p0 = M.Path()
            p0.heap = eng.initial_heap()
            paths = [q for q in it.run(path=p0) if q.end == 'return']
            if not paths:
                raise M.MirError('no returning path in ' + name)
            cover = []
            for q in paths:
                got = as_str(q.ret)
                lowered = q.heap.get('#lowered')
                if lowered is not None:
                    got = lowered           # the String was lower-cased in place before being returned
                if got is None:
                    bad.append(f'{name} returns {q.ret!r}')
                    continue
                cover.append(z3.And(q.pc) if q.pc else z3.BoolVal(True))
                O._unsat(q.pc + [got != z3.If(LOW, LOWER(want), want)], bad, f'{name}: not the documented file name')
            O._unsat([z3.Not(z3.Or(cover))] if cover else [z3.BoolVal(True)], bad, f'{name}: some input has no returning path')
    except M.MirError as e:
        O._finish(ob, t0, ['MIR: ' + str(e)], unknown=True)
        ob['detail'] = 'MIR: ' + str(e)
        return ob
    return O._finish(ob, t0, sorted(set(bad)))


def p45_paths_and_compare(binfns, consts):
    ob4 = O._ob('c15_mir_output_paths', 'qmluic-cli::generate_ui_file (src/main.rs)', 'all paths; every call result symbolic',
                'the .ui goes to source.with_file_name(type_name_to_ui_name(type name)) and the header to source.with_file_name(type_name_to_ui_support_cxx_header_name(type name)), '
                'each joined under the output directory iff one is given')
    ob5 = O._ob('c15_mir_compare_then_write', 'qmluic-cli::generate_ui_file + its comparison closures', 'all paths',
                'a writer is reached only if reading the existing output failed or its bytes differ from the freshly serialised buffer; the closure compares with exactly that buffer')
    t0 = time.time()
    bad4, bad5 = [], []
    try:
        fn = M.find_fn(binfns, r'^generate_ui_file$')
        it = M.Interp(fn, consts, call_model=c04.forking_try)
        it.max_depth = 3000
        paths = [q for q in it.run(max_paths=20000) if q.end == 'return']
        nw = 0
        for q in paths:
            ws = [c for c in q.calls if c.callee.split('::<')[0].endswith('with_output_file')]
            if not ws or M.check(q.pc) == 'unsat':
                continue
            nw += 1
            outdir_some = None
            for lit in q.pc:
                m = re.search(r'_4\.discr == (\d)', str(lit))
                if m:
                    outdir_some = (m.group(1) == '1') != str(lit).startswith('Not')
            for w in ws:
                t = canon(w.args[0])
                rule = 'type_name_to_ui_name' if 'type_name_to_ui_name(' in t else ('type_name_to_ui_support_cxx_header_name' if 'type_name_to_ui_support_cxx_header_name(' in t else None)
                if rule is None or 'with_file_name(_3' not in t.replace('&', ''):
                    bad4.append(f'an output path is not source.with_file_name(<rule name>): {t[:160]}')
                joined = 'join(' in t
                if outdir_some is not None and joined != outdir_some:
                    bad4.append(f'output directory {"given" if outdir_some else "not given"} but the path is {"" if joined else "not "}joined under it')
                # P5: the guard of this writer
                reads = [c for c in q.calls if c.callee.split('::<')[0].endswith('fs::read') and c.seq < w.seq]
                guards = [c for c in q.calls if c.callee.split('::<')[0].endswith('unwrap_or') and c.seq < w.seq]
                if not reads or not guards:
                    bad5.append('a writer is reached without reading the existing output first')
                    continue
                g = guards[-1]
                if canon(reads[-1].args[0]).replace('&', '') not in canon(w.args[0]).replace('&', '') and canon(w.args[0]).replace('&', '') not in canon(reads[-1].args[0]).replace('&', ''):
                    bad5.append('the file that is compared is not the file that is written')
                leaf = it.leaf(g.name + '.int', 'isize')
                O._unsat(q.pc + [leaf != 0], bad5, 'a writer is reached although the existing output has the same bytes')
                # the buffer the existing file is compared with is the buffer that is written
                maps = [c for c in q.calls if c.callee.split('::<')[0].endswith('::map') and c.seq < w.seq and c.seq > reads[-1].seq]
                cmp_clo = c08.deref(maps[-1].args[1]) if maps else None
                wr_clo = c08.deref(w.args[2]) if len(w.args) > 2 else None
                if not (isinstance(cmp_clo, M.Adt) and isinstance(wr_clo, M.Adt)):
                    bad5.append('the comparison / writer closures are not recognisable')
                elif len(cmp_clo.fields) != len(wr_clo.fields) or any(c08.deref(x) is not c08.deref(y) for x, y in zip(cmp_clo.fields, wr_clo.fields)):
                    bad5.append(f'the existing file is compared with {[canon(x)[:40] for x in cmp_clo.fields]} but {[canon(x)[:40] for x in wr_clo.fields]} is written')
        if nw == 0:
            bad4.append('no writer path (stale)')
        # the comparison closures
        clos = [f for n, f in binfns.items() if re.match(r'generate_ui_file::\{closure#\d+\}$', n) and f.header.rstrip(' {').endswith('-> bool')]
        if len(clos) != 2:
            bad5.append(f'{len(clos)} comparison closures found (expected 2)')
        for f in clos:
            itc = M.Interp(f, consts, arg_values={'_1': M.Adt('closure', [M.Ref(M.Opaque('captured_buffer'))]), '_2': M.Opaque('existing_bytes')})
            rets = [q for q in itc.run() if q.end == 'return']
            t = canon(rets[0].ret) if len(rets) == 1 else '?'
            if not (t.startswith('eq(') and 'existing_bytes' in t and 'captured_buffer' in t):
                bad5.append(f'a comparison closure is not `existing == fresh buffer`: {t[:120]}')
        ob4['writer_paths'] = nw
    except M.MirError as e:
        for ob in (ob4, ob5):
            O._finish(ob, t0, ['MIR: ' + str(e)], unknown=True)
            ob['detail'] = 'MIR: ' + str(e)
        return [ob4, ob5]
    return [O._finish(ob4, t0, sorted(set(bad4))[:5]), O._finish(ob5, t0, sorted(set(bad5))[:5])]


def p7_every_output_considered(binfns, consts):
    ob = O._ob('c15_mir_every_output_brought_up_to_date', 'qmluic-cli::generate_ui_file (src/main.rs)', 'all paths that return Ok',
               'a successful run has compared the .ui with the file on disk AND has decided about the support header (compared it too when there is support code), whatever the state of the other file: '
               'what is on disk afterwards does not depend on what an earlier run left there')
    t0 = time.time()
    bad = []
    try:
        fn = M.find_fn(binfns, r'^generate_ui_file$')
        it = M.Interp(fn, consts, call_model=c04.forking_try)
        it.max_depth = 3000
        n = 0
        for q in it.run(max_paths=20000):
            if q.end != 'return' or is_err(q.ret) or M.check(q.pc) == 'unsat':
                continue
            n += 1
            reads = [c for c in q.calls if c.callee.split('::<')[0].endswith('fs::read')]
            pcs = ' '.join(str(l) for l in q.pc)
            m = re.search(r'(\S*\.1\.discr) == (\d)', pcs)
            if not reads:
                bad.append('Ok is returned without comparing the .ui with the file on disk')
            if not m:
                bad.append('Ok is returned without deciding whether there is support code to write')
                continue
            has_support = ('Not(' + m.group(0) + ')' not in pcs) == (m.group(2) == '1')
            if has_support and len(reads) < 2:
                bad.append('there is support code but Ok is returned without comparing the support header with the file on disk')
            if has_support:
                guards = [c for c in q.calls if c.callee.split('::<')[0].endswith('unwrap_or')]
                writes = [c for c in q.calls if c.callee.split('::<')[0].endswith('with_output_file')]
                if len(guards) >= 2:
                    differ = it.leaf(guards[1].name + '.int', 'isize') == 0
                    hdr_written = any(c.seq > guards[1].seq for c in writes)
                    if not hdr_written:
                        O._unsat(q.pc + [differ], bad, 'the support header on disk differs but is not rewritten')
        if n == 0:
            bad.append('no Ok path (stale)')
        ob['ok_paths'] = n
    except M.MirError as e:
        O._finish(ob, t0, ['MIR: ' + str(e)], unknown=True)
        ob['detail'] = 'MIR: ' + str(e)
        return ob
    return O._finish(ob, t0, sorted(set(bad))[:5])


def p6_atomic_protocol(binfns, consts):
    ob = O._ob('c15_mir_temp_file_then_persist', 'qmluic-cli::with_output_file (src/main.rs)', 'all paths; every fallible step may fail',
               'create_dir_all(parent) -> NamedTempFile::new_in(parent) -> writer closure -> set_permissions -> persist(path) in this order; persist only after all earlier steps succeeded, '
               'to the path given; Ok only after persist succeeded')
    t0 = time.time()
    bad = []
    ORDER = ['create_dir_all', 'new_in', 'call_once', 'set_permissions', 'persist']
    try:
        fn = M.find_fn(binfns, r'^with_output_file$')
        it = M.Interp(fn, consts, call_model=c04.forking_try)
        paths = [q for q in it.run(max_paths=2000) if q.end == 'return']
        ok_paths = 0
        for q in paths:
            if M.check(q.pc) == 'unsat':
                continue
            seq = [c for c in q.calls if c.callee.split('::<')[0].split('::')[-1] in ORDER]
            names = [c.callee.split('::<')[0].split('::')[-1] for c in seq]
            if names != ORDER[:len(names)]:
                bad.append(f'steps run in the order {names}')
                continue
            fails = [l for l in q.pc if str(l).startswith('fails#')]
            if 'persist' in names and fails:
                # a `?` fired: it must be the one after persist
                pidx = max(c.seq for c in seq if c.callee.split('::<')[0].endswith('persist'))
                if any(int(re.search(r'fails#(\d+)', str(l)).group(1)) < pidx for l in fails):
                    bad.append('persist is reached although an earlier step failed')
            if not is_err(q.ret):
                ok_paths += 1
                if names != ORDER:
                    bad.append(f'Ok is returned after only {names}')
                if fails:
                    bad.append('Ok is returned although a step failed')
            if 'persist' in names:
                pc_ = [c for c in seq if c.callee.split('::<')[0].endswith('persist')][0]
                if 'as_ref(' not in canon(pc_.args[1]) or '_1' not in canon(pc_.args[1]):
                    bad.append(f'persist target is not the given path: {canon(pc_.args[1])[:80]}')
                nc = [c for c in seq if c.callee.split('::<')[0].endswith('new_in')][0]
                if 'parent(' not in canon(nc.args[0]) and 'parent(' not in ' '.join(canon(c) for c in q.calls if c.seq < nc.seq)[-400:]:
                    bad.append('the temporary file is not created in the directory of the target')
        if ok_paths != 1:
            bad.append(f'{ok_paths} successful paths (expected exactly one)')
        ob['paths'] = len(paths)
    except M.MirError as e:
        O._finish(ob, t0, ['MIR: ' + str(e)], unknown=True)
        ob['detail'] = 'MIR: ' + str(e)
        return ob
    return O._finish(ob, t0, sorted(set(bad))[:5])


def replay(workdir):
    """real CLI: refusal of escaping paths, file names and locations, untouched outputs on a second run"""
    import subprocess, shutil
    shutil.rmtree(workdir, ignore_errors=True)
    os.makedirs(os.path.join(workdir, 'proj', 'sub'))
    q = C.build_native()
    meta = os.path.join(C.REPO, 'contrib', 'metatypes')
    doc = 'import qmluic.QtWidgets\nQWidget {\n QVBoxLayout {\n  QCheckBox { id: src }\n  QLabel { id: lab; enabled: src.checked }\n }\n}\n'
    proj = os.path.join(workdir, 'proj')
    for rel in ('MyForm.qml', os.path.join('sub', 'OtherForm.qml')):
        with open(os.path.join(proj, rel), 'w') as f:
            f.write(doc)
    with open(os.path.join(workdir, 'Outside.qml'), 'w') as f:
        f.write(doc)
    failed = []

    def run(args, cwd=proj):
        return subprocess.run([q, 'generate-ui', '--foreign-types', meta] + args, cwd=cwd, capture_output=True, text=True, env=C.ENV)

    def tree(root):
        out = {}
        for d, _, fs_ in os.walk(root):
            for f in fs_:
                p = os.path.join(d, f)
                st = os.stat(p)
                out[os.path.relpath(p, workdir)] = (st.st_ino, st.st_mtime_ns, st.st_size)
        return out
    before = tree(workdir)
    for name, args in (('parent', ['-O', 'out', '../Outside.qml']), ('absolute', ['-O', 'out', os.path.join(proj, 'MyForm.qml')]), ('inner-parent', ['-O', 'out', 'sub/../../Outside.qml']),
                       ('parent-after-a-legal-source', ['-O', 'out', 'MyForm.qml', '../Outside.qml']), ('parent-before-a-legal-source', ['-O', 'out', '../Outside.qml', 'MyForm.qml']),
                       ('absolute-next-to-a-legal-source', ['-O', 'out', 'MyForm.qml', os.path.join(workdir, 'Outside.qml')])):
        r = run(args)
        if r.returncode == 0 or tree(workdir) != before:
            failed.append({'probe': 'refuse-' + name, 'rc': r.returncode, 'new_files': sorted(set(tree(workdir)) - set(before)), 'why': 'an escaping source path is accepted or something is written'})
    r = run(['MyForm.qml', 'sub/OtherForm.qml'])
    want = {'proj/myform.ui', 'proj/uisupport_myform.h', 'proj/sub/otherform.ui', 'proj/sub/uisupport_otherform.h'}
    got = set(tree(workdir)) - set(before)
    if r.returncode != 0 or got != want:
        failed.append({'probe': 'names-next-to-source', 'rc': r.returncode, 'expected': sorted(want), 'actual': sorted(got), 'why': 'outputs are not exactly x.ui and uisupport_x.h next to each source'})
    snap = tree(workdir)
    r = run(['MyForm.qml', 'sub/OtherForm.qml'])
    if r.returncode != 0 or tree(workdir) != snap:
        changed = [k for k, v in tree(workdir).items() if snap.get(k) != v]
        failed.append({'probe': 'second-run-touches-nothing', 'changed': changed, 'why': 're-running on unchanged inputs rewrote an output (inode / mtime changed)'})
    b2 = tree(workdir)
    r = run(['-O', 'out', '--no-lowercase-file-name', 'MyForm.qml', './sub/OtherForm.qml'])
    want = {'proj/out/MyForm.ui', 'proj/out/uisupport_MyForm.h', 'proj/out/sub/OtherForm.ui', 'proj/out/sub/uisupport_OtherForm.h'}
    got = set(tree(workdir)) - set(b2)
    if r.returncode != 0 or got != want:
        failed.append({'probe': 'names-under-output-directory', 'rc': r.returncode, 'expected': sorted(want), 'actual': sorted(got), 'stderr': r.stderr[-200:], 'why': 'outputs are not at the same relative path under the output directory'})
    # edit only what lives in the header (the .ui stays byte-identical), re-run, compare with a translation from scratch
    doc2 = doc.replace('enabled: src.checked', 'enabled: !src.checked')
    with open(os.path.join(proj, 'MyForm.qml'), 'w') as f:
        f.write(doc2)
    r = run(['MyForm.qml'])
    fresh = os.path.join(workdir, 'fresh')
    os.makedirs(fresh)
    with open(os.path.join(fresh, 'MyForm.qml'), 'w') as f:
        f.write(doc2)
    r2 = run(['MyForm.qml'], cwd=fresh)
    try:
        same = open(os.path.join(proj, 'uisupport_myform.h')).read() == open(os.path.join(fresh, 'uisupport_myform.h')).read()
    except OSError:
        same = False
    if r.returncode != 0 or r2.returncode != 0 or not same:
        failed.append({'probe': 'header-follows-an-edit-that-leaves-the-ui-unchanged', 'why': 'after editing only a binding expression the support header on disk is not what a translation from scratch gives'})
    b3 = tree(workdir)
    r = run(['--no-dynamic-binding', '-O', 'out2', 'sub/OtherForm.qml'])
    if set(tree(workdir)) - set(b3):
        failed.append({'probe': 'reject-mode-writes-nothing-on-error', 'new': sorted(set(tree(workdir)) - set(b3)), 'why': 'a rejected document produced files'})
    # a dangling symbolic link at the output path: the link itself is replaced (rename), nothing is created where it points to
    p3 = os.path.join(workdir, 'proj3')
    os.makedirs(os.path.join(p3, 'out'))
    os.makedirs(os.path.join(p3, 'elsewhere'))
    with open(os.path.join(p3, 'MyForm.qml'), 'w') as f:
        f.write(doc)
    for fn in ('myform.ui', 'uisupport_myform.h'):
        os.symlink(os.path.join('..', 'elsewhere', 'stolen_' + fn), os.path.join(p3, 'out', fn))
    r = run(['-O', 'out', 'MyForm.qml'], cwd=p3)
    stolen = sorted(os.listdir(os.path.join(p3, 'elsewhere')))
    links = [fn for fn in ('myform.ui', 'uisupport_myform.h') if os.path.islink(os.path.join(p3, 'out', fn))]
    if r.returncode != 0 or stolen or links:
        failed.append({'probe': 'dangling-symlink-at-the-output-path', 'rc': r.returncode, 'created_outside': stolen, 'still_links': links,
                       'why': 'an output was written through a symbolic link instead of replacing it: files appear outside the output directory'})
    # a run killed in the middle of writing (file size limit => SIGXFSZ): each output path is absent / complete old / complete new
    big = 'import qmluic.QtWidgets\nQWidget {\n QVBoxLayout {\n' + ''.join(f'  QLabel {{ id: label_{i}; text: "text of label number {i}" }}\n' for i in range(400)) + ' }\n}\n'
    ref = os.path.join(workdir, 'proj4ref')
    os.makedirs(ref)
    with open(os.path.join(ref, 'Big.qml'), 'w') as f:
        f.write(big)
    run(['-O', 'out', 'Big.qml'], cwd=ref)
    try:
        complete_new = open(os.path.join(ref, 'out', 'big.ui'), 'rb').read()
    except OSError:
        complete_new = None
    if complete_new is None or len(complete_new) < 8192:
        failed.append({'probe': 'kill-reference', 'why': 'the reference translation of the large document failed'})
    else:
        for name, old_doc in (('killed-while-creating-a-new-output', None), ('killed-while-replacing-an-existing-output', doc)):
            p4 = os.path.join(workdir, 'proj4_' + ('new' if old_doc is None else 'old'))
            os.makedirs(p4)
            complete_old = None
            if old_doc is not None:
                with open(os.path.join(p4, 'Big.qml'), 'w') as f:
                    f.write(old_doc)
                run(['-O', 'out', 'Big.qml'], cwd=p4)
                complete_old = open(os.path.join(p4, 'out', 'big.ui'), 'rb').read()
            with open(os.path.join(p4, 'Big.qml'), 'w') as f:
                f.write(big)
            k = subprocess.run(['sh', '-c', 'ulimit -f 8 && exec "$0" generate-ui --foreign-types "$1" -O out Big.qml', q, meta], cwd=p4, capture_output=True, text=True, env=C.ENV)
            try:
                now = open(os.path.join(p4, 'out', 'big.ui'), 'rb').read()
            except FileNotFoundError:
                now = None
            if k.returncode == 0:
                failed.append({'probe': name, 'why': 'the size-limited run was not killed (probe without effect)', 'rc': k.returncode})
            elif now not in (complete_old, complete_new):
                failed.append({'probe': name, 'rc': k.returncode, 'bytes_at_output_path': None if now is None else len(now), 'complete_old': None if complete_old is None else len(complete_old),
                               'complete_new': len(complete_new), 'why': 'after a run killed while writing, the output path holds neither its complete old nor its complete new content'})
    with open(os.path.join(workdir, 'README.txt'), 'w') as f:
        f.write('qmluic generate-ui ... in proj/ (see the probes in vlib/props/c15.py replay())\n' + json.dumps(failed, indent=1) + '\n')
    return bool(failed), {'failed_probes': failed}


def run(res, args):
    fns, consts = O.load()
    binfns = M.parse_functions(M.dump_mir_bin())
    obs = [p1_filter(binfns, consts), p2_refuses_early(binfns, consts), p3_file_names(fns, consts)] + p45_paths_and_compare(binfns, consts) + [p6_atomic_protocol(binfns, consts), p7_every_output_considered(binfns, consts), p8_options(binfns, consts)]

    def rp(ob, d):
        rep, info = replay(d)
        return rep, info, {'site': ob['name'], 'probe': info['failed_probes'][0]['probe'] if info['failed_probes'] else None}
    O.merge(res, obs, res.coverage, rp, 'file handling')
    res.assumptions += [
        'C15 engine C: std / camino / tempfile calls are uninterpreted; NamedTempFile::persist is an atomic rename (tempfile crate contract) because the temporary file is created in the target directory',
        'Outside the claim: the file system itself (kill points are not explored, only the order of the steps that makes them safe is decided), with_file_name / join semantics of camino, cmake/QmluicMacros.cmake, the dump-metatypes and preview sub-commands',
    ]
