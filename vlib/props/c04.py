"""C04 (partial): every binding is embedded, generated, or diagnosed; errors write nothing.  Engine C on the MIR.

W1  src/main.rs generate_ui_file (MIR of the command-line crate): on every path that reaches a writer
    (with_output_file / fs::write / File::create / persist / rename) the document had no syntax error, uigen::build
    returned Some and Diagnostics::has_error() returned false -- decided by z3 on the path conditions; and every path on
    which one of the three gates fails returns Err without having called a writer.
W2  PropertyCode::evaluate / is_evaluated_constant (OnceCell modelled as a cell on the path heap): after evaluate(), the
    predicate that routes a binding to the C++ pass is exactly "evaluate() returned None"; evaluate() is idempotent; an
    unevaluated expression counts as dynamic; maps never evaluate.
W3  SerializableValue::build, build_item_model, build_object_ref_list (the constant pass): a path returns None WITHOUT a
    diagnostic only if evaluate() returned None (the binding is left to the C++ pass); every other None path has pushed
    an error or delegates to a callee that gave up.
Together with the two C14 obligations re-run here (same `!is_evaluated_constant` filter in the C++ pass; a selected dynamic
property becomes a binding or is reported) this gives: a scalar binding is never consumed by both passes and never by none."""
import json, os, re, time
import z3
from .. import common as C, mir as M
from . import mir_obligations as O, c08, c14
from .c08_palette import enum_variants

LEVEL = 'proof'
WRITERS = ('with_output_file', 'fs::write', 'File::create', 'OpenOptions', 'persist', 'fs::rename', 'NamedTempFile', 'write_all')


def forking_try(c, it, p):
    """`?` on an uninterpreted Result/Option: both outcomes"""
    if c.callee.endswith('as Try>::branch'):
        b = z3.Bool(f'fails#{c.seq}')
        return M.Fork([([z3.Not(b)], None, M.Adt('ControlFlow::Continue', [M.Opaque(f'value#{c.seq}')])),
                       ([b], None, M.Adt('ControlFlow::Break', [M.Opaque(f'residual#{c.seq}')]))])
    return None


def write_gate(binfns, consts):
    ob = O._ob('c04_mir_errors_write_nothing', 'qmluic-cli::generate_ui_file (src/main.rs)', 'all paths; results of all calls symbolic (io errors included)',
               'a writer is reached only if the document has no syntax error, uigen::build returned Some and Diagnostics::has_error() is false; otherwise the function returns Err and no writer is called')
    t0 = time.time()
    bad = []
    try:
        fn = M.find_fn(binfns, r'^generate_ui_file$')
        it = M.Interp(fn, consts, call_model=forking_try)
        it.max_depth = 3000
        paths = [q for q in it.run(max_paths=20000) if q.end == 'return']
        if not paths:
            raise M.MirError('no returning path')
        nwrite = 0
        for q in paths:
            writes = [c for c in q.calls if any(w in c.callee.split('::<')[0] for w in WRITERS)]
            syn = [c for c in q.calls if c.callee.endswith('has_syntax_error')]
            bld = [c for c in q.calls if c.callee.split('::<')[0].endswith('uigen::build')]
            err = [c for c in q.calls if c.callee.endswith('Diagnostics::has_error')]
            gates = []
            if syn:
                gates.append(it.leaf(syn[0].name + '.int', 'isize') == 0)
            if bld:
                gates.append(it.leaf(bld[0].name + '.discr', 'isize') == 1)
            if err:
                gates.append(it.leaf(err[0].name + '.int', 'isize') == 0)
            ok = z3.And(gates) if len(gates) == 3 else z3.BoolVal(False)
            if M.check(q.pc) == 'unsat':
                continue
            if writes:
                nwrite += 1
                if len(gates) < 3:
                    bad.append(f'a writer ({writes[0].callee.split("::<")[0]}) is reached on a path that has not passed all three gates (syntax errors / build result / has_error)')
                else:
                    O._unsat(q.pc + [z3.Not(ok)], bad, f'a writer ({writes[0].callee.split("::<")[0]}) is reached although a gate fails')
            else:
                # no writer: fine.  If all gates are open the path must be an io-error path or the "unchanged" path.
                pass
            # gate fails => Err
            if len(gates) == 3:
                r = q.ret
                is_err = (isinstance(r, M.Adt) and r.path.endswith('Err')) or (isinstance(r, M.Call) and r.callee.endswith('from_residual'))
                if not is_err:
                    O._unsat(q.pc + [z3.Not(ok)], bad, 'a gate fails but the function does not return Err')
            elif not ((isinstance(q.ret, M.Adt) and q.ret.path.endswith('Err')) or (isinstance(q.ret, M.Call) and q.ret.callee.endswith('from_residual'))):
                bad.append('a path returns Ok without having consulted all three gates')
        if nwrite == 0:
            bad.append('no path reaches a writer (the writer list is stale)')
        ob['paths'] = len(paths)
        ob['paths_reaching_a_writer'] = nwrite
    except M.MirError as e:
        O._finish(ob, t0, ['MIR: ' + str(e)], unknown=True)
        ob['detail'] = 'MIR: ' + str(e)
        return ob
    return O._finish(ob, t0, sorted(set(bad))[:6])


class Cell:
    def __init__(self, name):
        self.name = name


def scanon(v):
    from .c15 import canon
    return canon(v)


def evaluate_coherence(fns, consts):
    ob = O._ob('c04_mir_evaluate_routes_the_binding', 'uigen::objcode::PropertyCode::{evaluate, evaluate_uncached, is_evaluated_constant} (+ closures, inlined)',
               'an expression binding whose constant evaluation succeeds or not (symbolic); gadget/object maps; OnceCell modelled as a cell on the path heap',
               'after evaluate(): is_evaluated_constant() <=> evaluate() returned Some; evaluate() is idempotent (the code is evaluated once); never evaluated => dynamic; evaluate() of a map is None')
    t0 = time.time()
    bad = []
    try:
        variants = enum_variants('lib/src/uigen/objcode.rs', 'PropertyCodeKind')
        for i, v in enumerate(variants):
            M.VARIANT_INDEX[v] = i
        M.ENUM_TYPES.add('PropertyCodeKind')
        fields = O.struct_fields('lib/src/uigen/objcode.rs', 'PropertyCode')
        f_eval = M.find_fn(fns, r'objcode\.rs:\d+:\d+: \d+:\d+>::evaluate$')
        f_unc = M.find_fn(fns, r'objcode\.rs:\d+:\d+: \d+:\d+>::evaluate_uncached$')
        f_isc = M.find_fn(fns, r'objcode\.rs:\d+:\d+: \d+:\d+>::is_evaluated_constant$')
        S = z3.Bool('constant_evaluation_succeeds')
        evals = []

        def closure_fn(v):
            v = c08.deref(v)
            nm = v.path if isinstance(v, M.Adt) else getattr(v, 'name', '')
            loc = re.search(r'closure@([^}]*)', nm or '')
            cands = [f for f in fns.values() if loc and ('closure@' + loc.group(1) + '}') in f.param_types.get('_1', '')]
            if len(cands) != 1:
                raise M.MirError('closure body')
            return cands[0], (M.Ref(v) if cands[0].param_types['_1'].startswith('&') else v)

        def run_fn(fn, args, p):
            it = M.Interp(fn, consts, arg_values={f'_{i + 1}': a for i, a in enumerate(args)}, call_model=model)
            q0 = M.Path()
            q0.pc, q0.heap = list(p.pc), dict(p.heap)
            return [(q.pc[len(p.pc):], q.heap, q.ret) for q in it.run(path=q0) if q.end == 'return']

        def model(c, it, p):
            name, a = c.callee, c.args
            last = name.split('::<')[0].split('::')[-1]
            recv = c08.deref(a[0]) if a else None
            if name.split('::<')[0].endswith('evaluate_uncached'):
                return M.Fork(run_fn(f_unc, list(a), p))
            if last == 'evaluate_code':
                p.heap['#evaluations'] = p.heap.get('#evaluations', 0) + 1
                return M.Fork([([S], None, M.Adt('Option::Some', [M.Opaque('evaluated_value')])), ([z3.Not(S)], None, M.Adt('Option::None', []))])
            if isinstance(recv, Cell):
                st = p.heap.get(recv.name)
                if last == 'get_or_init':
                    if st is not None:
                        return M.Ref(st)
                    cfn, env = closure_fn(a[1])
                    outs = []
                    for pcs, heap, ret in run_fn(cfn, [env], p):
                        heap = dict(heap)
                        heap[recv.name] = ret
                        outs.append((pcs, heap, M.Ref(ret)))
                    return M.Fork(outs)
                if last == 'get':
                    return M.Adt('Option::Some', [M.Ref(st)]) if st is not None else M.Adt('Option::None', [])
                raise M.MirError('unmodelled OnceCell operation ' + name)
            v0 = recv.path.split('::')[-1] if isinstance(recv, M.Adt) else None
            if last == 'clone' and v0 in ('Some', 'None'):
                return recv
            if last == 'map' and v0 in ('Some', 'None'):
                if v0 == 'None':
                    return recv
                cfn, env = closure_fn(a[1])
                return M.Fork([(pcs, h, M.Adt('Option::Some', [r])) for pcs, h, r in run_fn(cfn, [env, recv.fields[0]], p)])
            if last == 'unwrap_or' and v0 in ('Some', 'None'):
                return recv.fields[0] if v0 == 'Some' else a[1]
            if last in ('is_some', 'is_none') and v0 in ('Some', 'None'):
                return z3.BoolVal((v0 == 'Some') == (last == 'is_some'))
            if last in ('values', 'all'):
                return None
            return None

        def prop(kind):
            f = []
            for n in fields:
                if n == 'kind':
                    f.append(M.Adt('PropertyCodeKind::' + kind, [M.Opaque('kind.0'), M.Opaque('kind.1')]))
                elif n == 'evaluated_value':
                    f.append(Cell('cell'))
                else:
                    f.append(M.Opaque('property.' + n))
            return M.Ref(M.Adt('PropertyCode', f, list(fields)))

        p0 = M.Path()
        p0.pc, p0.heap = [], {}
        # never evaluated: dynamic
        for pcs, heap, r in run_fn(f_isc, [prop('Expr')], p0):
            if not (z3.is_expr(r) and z3.is_false(z3.simplify(r))):
                bad.append(f'an expression that was never evaluated counts as constant ({r})')
        # evaluate, then the predicate, then evaluate again
        P = prop('Expr')
        n = 0
        for pcs1, h1, r1 in run_fn(f_eval, [P], p0):
            st = M.Path()
            st.pc, st.heap = list(pcs1), h1
            some1 = isinstance(r1, M.Adt) and r1.path.endswith('Some')
            for pcs2, h2, r2 in run_fn(f_isc, [P], st):
                n += 1
                want = z3.BoolVal(some1)
                if not z3.is_expr(r2):
                    bad.append(f'is_evaluated_constant returns {r2!r}')
                else:
                    O._unsat(pcs1 + pcs2 + [r2 != want], bad, 'is_evaluated_constant() disagrees with the result of evaluate()')
                st2 = M.Path()
                st2.pc, st2.heap = list(pcs1) + list(pcs2), h2
                for pcs3, h3, r3 in run_fn(f_eval, [P], st2):
                    some3 = isinstance(r3, M.Adt) and r3.path.endswith('Some')
                    if some3 != some1 and M.check(pcs1 + pcs2 + pcs3) != 'unsat':
                        bad.append('a second evaluate() gives a different answer')
                    if h3.get('#evaluations', 0) != h1.get('#evaluations', 0):
                        bad.append('the code is evaluated again by the second evaluate()')
        if n == 0:
            bad.append('no path through evaluate() + is_evaluated_constant()')
        for kind in variants:
            if kind == 'Expr':
                continue
            for pcs, heap, r in run_fn(f_eval, [prop(kind)], p0):
                if not (isinstance(r, M.Adt) and r.path.endswith('None')):
                    bad.append(f'evaluate() of a {kind} is not None')
            # a grouped value is constant only if ALL its members are (otherwise the dynamic member is left to nobody)
            for pcs, heap, r in run_fn(f_isc, [prop(kind)], p0):
                if not (isinstance(r, M.Call) and re.search(r'(::|>::)all$', r.callee.split('::<')[0])):
                    bad.append(f'is_evaluated_constant() of a {kind} is not `all members are constant`: {scanon(r)[:80]}')
                    continue
                if 'values(' not in scanon(r.args[0]):
                    bad.append(f'is_evaluated_constant() of a {kind} does not range over the members of the map')
                cfn, env = closure_fn(r.args[1])
                itc = M.Interp(cfn, consts, arg_values={'_1': env, '_2': M.Ref(M.Opaque('member'))})
                rets = [q for q in itc.run() if q.end == 'return']
                t = scanon(rets[0].ret) if len(rets) == 1 else '?'
                if 'is_evaluated_constant(' not in t or 'member' not in t or t.startswith('op:Not'):
                    bad.append(f'the member test of a {kind} is not is_evaluated_constant(member): {t[:80]}')
        ob['paths'] = n
    except M.MirError as e:
        O._finish(ob, t0, ['MIR: ' + str(e)], unknown=True)
        ob['detail'] = 'MIR: ' + str(e)
        return ob
    return O._finish(ob, t0, sorted(set(bad)))


def constant_pass_contract(fns, consts):
    ob = O._ob('c04_mir_constant_pass_embeds_or_reports', 'uigen::expr::{SerializableValue::build, build_item_model, build_object_ref_list}',
               'all paths; kind of the binding and outcomes of all callees symbolic',
               'None without a diagnostic only when evaluate() returned None (left to the C++ pass); every other None path has pushed an error itself or gives up because a callee that reports its own errors gave up')
    t0 = time.time()
    bad = []
    DELEGATES = ('verify_code_return_type', 'parse_as_value_type', 'extract_string_list', 'into_object_ref_list', 'Gadget::new', 'PaletteColorGroup::new')
    try:
        targets = [M.find_fn(fns, r'expr\.rs:\d+:\d+: \d+:\d+>::build$'), M.find_fn(fns, r'^build_item_model$'), M.find_fn(fns, r'^build_object_ref_list$')]
        npaths = 0
        for fn in targets:
            def model(c, it, p):
                if not hasattr(p, 'heap'):
                    p.heap = {}
                if c.callee.endswith('as Try>::branch'):
                    src = c08.deref(c.args[0])
                    nm = (getattr(src, 'callee', '') or '').split('::<')[0]
                    b = z3.Bool(f'gives_up#{c.seq}')
                    h1 = dict(p.heap)
                    h1['#gave_up'] = p.heap.get('#gave_up', ()) + (nm,)
                    return M.Fork([([z3.Not(b)], None, M.Adt('ControlFlow::Continue', [M.Opaque(f'value#{c.seq}')])), ([b], h1, M.Adt('ControlFlow::Break', [M.Opaque(f'residual#{c.seq}')]))])
                return None
            it = M.Interp(fn, consts, call_model=model)
            it.max_depth = 3000
            for q in it.run(max_paths=5000):
                if q.end != 'return':
                    continue
                r = q.ret
                tail_call = isinstance(r, M.Call) and not r.callee.endswith('from_residual')
                is_none = (isinstance(r, M.Adt) and r.path.endswith('None')) or (isinstance(r, M.Call) and r.callee.endswith('from_residual'))
                if not is_none:
                    continue            # Some(..) or the result of a callee returned as is (that callee reports for itself)
                if M.check(q.pc) == 'unsat':
                    continue
                npaths += 1
                pushed = any(c.callee.endswith('Diagnostics::push') and c14.c14_derives(c.args[1], 'Diagnostic::error') for c in q.calls)
                gave = getattr(q, 'heap', {}).get('#gave_up', ())
                if pushed:
                    continue
                if gave and gave[-1].endswith('PropertyCode::evaluate'):
                    if len(gave) == 1:
                        continue        # dynamic: silently left to the C++ pass, and nothing else happened before
                if gave and any(gave[-1].endswith(d) for d in DELEGATES):
                    continue
                lastc = [c.callee.split('::<')[0].split('::')[-1] for c in q.calls][-4:]
                bad.append(f'{fn.name.split("::")[-1]}: a path returns None without a diagnostic (gave up after {gave[-1] if gave else "nothing"}; last calls {lastc})')
        ob['none_paths_checked'] = npaths
        if npaths == 0:
            bad.append('no None path found (stale)')
    except M.MirError as e:
        O._finish(ob, t0, ['MIR: ' + str(e)], unknown=True)
        ob['detail'] = 'MIR: ' + str(e)
        return ob
    return O._finish(ob, t0, sorted(set(bad))[:6])


def handlers_kept_or_diagnosed(fns, consts):
    """W7: the signal handlers build_properties_callbacks finds in a group of bindings are never dropped by a caller"""
    from . import c11
    ob = O._ob('c04_mir_handlers_kept_or_diagnosed', 'uigen::objcode::{ObjectCodeMap::build, build_properties_map, PropertyCodeKind::build, ...}: every caller of build_properties_callbacks',
               'every MIR body of the lib crate that calls build_properties_callbacks; its result is (props, handlers) with two symbolic handlers; all paths',
               'on every path the list of handlers found in the group is either part of the returned value (the object\'s own handlers: ObjectCodeMap.callbacks) or an error whose range is the binding of that handler is pushed '
               'for EACH handler (attached / nested / gadget groups); the property map is always returned; PropertyCodeKind::build reaches the groups only through build_properties_map')
    t0 = time.time()
    bad = []
    try:
        callers = [f for n, f in fns.items() if not n.endswith('build_properties_callbacks') and any('build_properties_callbacks(' in s for b in f.blocks.values() for s in b)]
        if not callers:
            raise M.MirError('no caller of build_properties_callbacks (stale)')
        npaths = 0
        for fn in callers:
            eng = c11.VecSeq(fns, consts, ['handlers'])
            orig = eng.call

            def call(c_, it, p, orig=orig):
                if c_.callee.split('::<')[0].split('::')[-1] == 'build_properties_callbacks':
                    p.heap['#groups'] = p.heap.get('#groups', 0) + 1
                    return M.Tup([M.Opaque('props'), M.Opaque('handlers')])
                try:
                    return orig(c_, it, p)
                except M.MirError as e:
                    if 'flow into' in str(e):
                        return None          # an adaptor over some other collection: left uninterpreted
                    raise
            eng.call = call
            it = eng.interp(fn, {})
            p0 = M.Path()
            p0.heap = {}
            for q in it.run(path=p0, max_paths=400):
                if q.end != 'return' or M.check(q.pc) == 'unsat' or not q.heap.get('#groups'):
                    continue
                npaths += 1
                ret = scanon(q.ret) if q.ret is not None else ''
                tr = q.heap.get('#trace', ())
                kept = 'handlers' in ret
                diagnosed = [i for i in (0, 1) if any(t.startswith('Diagnostics::push(') and 'Diagnostic::error(' in t and f'binding_node(&handlers[{i}])' in t for t in tr)]
                if not kept and diagnosed != [0, 1]:
                    bad.append(f'{fn.name.split("::")[-1] if "impl at" not in fn.name else fn.name[-40:]}: the signal handlers found in a group of bindings are neither returned nor diagnosed one by one (diagnosed: {diagnosed})')
                if 'props' not in ret:
                    bad.append(f'{fn.name[-40:]}: the property map of the group is not returned')
        ob['paths'] = npaths
        if npaths == 0:
            bad.append('no path through a caller (stale)')
        # PropertyCodeKind::build: both class arms go through build_properties_map
        kb = [f for n, f in fns.items() if re.search(r'objcode\.rs:\d+:\d+: \d+:46>::build$', n)]
        if len(kb) != 1:
            raise M.MirError(f'{len(kb)} PropertyCodeKind::build bodies')
        n_map = sum(1 for b in kb[0].blocks.values() for s in b if re.search(r'= build_properties_map\(', s))
        if n_map != 2:
            bad.append(f'PropertyCodeKind::build calls build_properties_map {n_map} times (gadget and object group expected)')
    except (M.MirError, ValueError) as e:
        O._finish(ob, t0, ['MIR: ' + str(e)], unknown=True)
        ob['detail'] = 'MIR: ' + str(e)
        return ob
    return O._finish(ob, t0, sorted(set(bad))[:6])


def replay(workdir):
    """real CLI: a document with an error must leave stale outputs untouched and create nothing; a dynamic binding must
    appear in the header and not in the .ui, a constant one in the .ui and not in the header"""
    import subprocess
    os.makedirs(workdir, exist_ok=True)
    q = C.build_native()
    failed = []
    meta = os.path.join(C.REPO, 'contrib', 'metatypes')

    def gen(d, text, pre=None):
        os.makedirs(d, exist_ok=True)
        for f in os.listdir(d):
            os.remove(os.path.join(d, f))
        with open(os.path.join(d, 'Doc.qml'), 'w') as f:
            f.write(text)
        for k, v in (pre or {}).items():
            with open(os.path.join(d, k), 'w') as f:
                f.write(v)
        r = subprocess.run([q, 'generate-ui', '--foreign-types', meta, 'Doc.qml'], cwd=d, capture_output=True, text=True, env=C.ENV)
        files = {f: open(os.path.join(d, f)).read() for f in os.listdir(d) if f != 'Doc.qml'}
        return r, files
    wrap = lambda body: f'import qmluic.QtWidgets\nQWidget {{\n QVBoxLayout {{\n  {body}\n }}\n}}\n'
    for name, body in (('unknown-property', 'QLabel { id: lab; nosuch: 1 }'), ('ill-typed', 'QLabel { id: lab; text: 1 + "x" }'),
                       ('unsupported-dynamic', 'QCheckBox { id: src }\n  QSpacerItem { orientation: src.checked ? Qt.Horizontal : Qt.Vertical }'),
                       ('object-map-in-constant-pass', 'QLabel { id: lab; buddy.enabled: false }'),
                       ('syntax', 'QLabel { id: lab; text: }')):
        r, files = gen(os.path.join(workdir, 'err-' + name), wrap(body), {'doc.ui': 'STALE-UI', 'uisupport_doc.h': 'STALE-H'})
        if r.returncode == 0 or files.get('doc.ui') != 'STALE-UI' or files.get('uisupport_doc.h') != 'STALE-H' or len(files) != 2:
            failed.append({'probe': 'err-' + name, 'rc': r.returncode, 'files': {k: v[:30] for k, v in files.items()}, 'why': 'an erroneous document is accepted or touches its outputs'})
    r, files = gen(os.path.join(workdir, 'partition'), wrap('QCheckBox { id: src }\n  QLineEdit { id: edit }\n  QLabel { id: lab; text: "constant"; toolTip: edit.text; enabled: src.checked; indent: 3 }'))
    ui, h = files.get('doc.ui', ''), files.get('uisupport_doc.h', '')
    if r.returncode != 0:
        failed.append({'probe': 'partition', 'why': 'rejected: ' + r.stderr[-200:]})
    else:
        for prop, const in (('text', True), ('indent', True), ('toolTip', False), ('enabled', False)):
            in_ui = f'<property name="{prop}"' in ui
            in_h = re.search(r'->set' + prop[0].upper() + prop[1:] + r'\(', h) is not None
            if in_ui != const or in_h == const:
                failed.append({'probe': 'partition', 'property': prop, 'in_ui': in_ui, 'in_header': in_h, 'why': 'a binding is consumed by both passes or by none'})
    # a grouped value with a constant and a dynamic member: the dynamic member must be generated
    r, files = gen(os.path.join(workdir, 'mixed-group'), wrap('QSpinBox { id: spin }\n  QLabel { id: lab; font.family: "Monospace"; font.pointSize: spin.value }'))
    h = files.get('uisupport_doc.h', '')
    if r.returncode != 0 or 'setPointSize(' not in h or 'spin->value()' not in h:
        failed.append({'probe': 'mixed-group', 'rc': r.returncode, 'why': 'the dynamic member of a grouped value with a constant sibling is neither generated nor diagnosed'})
    # attached constant bindings of a grid layout: each one alone must reach the .ui
    for attr, xml in (('rowMinimumHeight', 'rowminimumheight'), ('columnMinimumWidth', 'columnminimumwidth'), ('rowStretch', 'rowstretch'), ('columnStretch', 'columnstretch')):
        text = f'import qmluic.QtWidgets\nQWidget {{\n QGridLayout {{\n  QLabel {{ id: lab; QLayout.{attr}: 7 }}\n }}\n}}\n'
        r, files = gen(os.path.join(workdir, 'attached-' + attr), text)
        if r.returncode != 0 or f'{xml}="7"' not in files.get('doc.ui', ''):
            failed.append({'probe': 'attached-' + attr, 'rc': r.returncode, 'why': f'the accepted constant binding QLayout.{attr}: 7 does not appear in the .ui'})
    # a signal handler inside a nested / gadget / attached group: connected in the header, or an error and nothing written
    for name, body, sig in (('handler-in-nested-object', 'QTreeView { id: view; header.onSectionClicked: function(index: int) { view.setEnabled(false) } }', 'sectionClicked'),
                            ('handler-in-nested-object-block', 'QTableView { id: view; horizontalHeader { stretchLastSection: true; onSectionDoubleClicked: view.setEnabled(false) } }', 'sectionDoubleClicked'),
                            ('handler-on-object', 'QPushButton { id: btn; onClicked: btn.setEnabled(false) }', 'clicked')):
        r, files = gen(os.path.join(workdir, name), wrap(body))
        connected = sig in files.get('uisupport_doc.h', '')
        refused = r.returncode != 0 and not files
        if not (refused or (r.returncode == 0 and connected)):
            failed.append({'probe': name, 'rc': r.returncode, 'files': sorted(files), 'why': f'the handler of {sig} is accepted but connected nowhere (or files were written despite an error)'})
    with open(os.path.join(workdir, 'README.txt'), 'w') as f:
        f.write('qmluic generate-ui --foreign-types /repo/contrib/metatypes Doc.qml in each sub-directory (err-*: with stale outputs in place)\n' + json.dumps(failed, indent=1) + '\n')
    return bool(failed), {'failed_probes': failed}


def run(res, args):
    fns, consts = O.load()
    bintext = M.dump_mir_bin()
    binfns = M.parse_functions(bintext)
    obs = [write_gate(binfns, consts), evaluate_coherence(fns, consts), constant_pass_contract(fns, consts),
           c14.predicate_obligation(fns, consts), c14.never_dropped_obligation(fns, consts)]
    obs.append(handlers_kept_or_diagnosed(fns, consts))
    for ob in obs[3:]:
        ob['name'] = ob['name'].replace('c14_', 'c04_')
    # constant attached layout values (accepted by the constant pass) must reach the .ui: shared with C12
    for ob in O.c12_xml_attributes(fns, consts):
        ob['name'] = ob['name'].replace('c12_', 'c04_')
        obs.append(ob)

    def rp(ob, d):
        rep, info = replay(d)
        return rep, info, {'site': ob['name'], 'probe': info['failed_probes'][0]['probe'] if info['failed_probes'] else None}
    O.merge(res, obs, res.coverage, rp, 'passes')
    res.assumptions += [
        'C04 engine C: callees are uninterpreted (their own contract "None only after a diagnostic" is assumed for parse_as_value_type, verify_code_return_type, extract_string_list, Gadget::new, PaletteColorGroup::new)',
        'Outside the claim: attached and grouped bindings end to end, that the diagnostic range lies within the binding, that the constant pass visits every property (object.rs / layout.rs callers), the temp-file + persist protocol of with_output_file (C15)',
    ]
