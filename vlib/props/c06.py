"""C06 Generated function bodies have sound control flow and define before use.
Engine B on every eval*/on* body of the statement corpus: static part (labels/terminators, parsed) and symbolic
part (z3: exists state reaching Q_UNREACHABLE / running off the end / value function returning without a value /
reading a local that is unassigned on that path)."""
import random
from .. import common as C
from ..tv import suite as S, driver as D, gen as G, lang as L, cxx
from . import c01, c13

LEVEL = 'translation_validation'


class StaticSuite(S.Suite):
    """adds the static label/terminator check for every function of every emitted header"""
    def __init__(self, *a):
        super().__init__(*a)
        self.static_checked = 0
        self.static_problems = []

    def one(self, p, doc, cli, hdr, query_name, make_query, replay_fn):
        fname = ('eval' if p.kind == 'binding' else 'on') + p.suffix()
        if fname in hdr.funcs:
            try:
                ex = cxx.Exec(hdr.funcs[fname], D.make_env(len(doc.programs), p.target()), None, None, 'root', None)
                probs = ex.static_problems()
                self.static_checked += 1
                if probs:
                    self.static_problems.append({'qml': p.source(), 'problems': probs})
            except cxx.Unsupported:
                pass
        super().one(p, doc, cli, hdr, query_name, make_query, replay_fn)


def run(res, args):
    tier = C.tier()
    rng = random.Random(C.seed())
    su = StaticSuite(res, 'c06')
    su.run(c01.stmt_programs(tier, rng), 'control-flow', D.control_query, S.replay_value, batch=30)
    su.run(c13.callback_programs(tier, rng), 'control-flow', D.control_query, S.replay_trace, batch=30)
    exprs = [p for i, p in enumerate(c01.expr_programs(tier, rng)) if p.tag != 'expr-depth1' or i % 3 == 0]
    su.run(exprs, 'control-flow', D.control_query, S.replay_value, batch=40)
    for sp in su.static_problems:
        d = C.new_replay_dir('C06', 'static-%d' % len(res.violations))
        open(d + '/program.qml', 'w').write(sp['qml'])
        res.violation({'site': 'static', 'shape': sp['problems'][0]}, 'label/terminator problem: %s\n%s' % (sp['problems'], sp['qml']), d)
    su.finish({'static_label_terminator_checks': su.static_checked,
               'bounds': 'all switch skeletons <=3 cases; all nestings of {ternary, &&, ||, if, if/else, switch, early return, conditional break} to depth %d; '
                         'callback tail shapes (declaration-only tails after if/else and switch); seeded random blocks and callbacks' % (3 if tier == 'thorough' else 2)})
    res.assumptions += [
        'branch conditions are interpreted semantically over all object states (a block reachable only under an unsatisfiable condition is not "reachable")',
        'the unassigned-read obligation is conditioned on the source not reading a user variable before assignment on that path',
        'Outside: finalize_completion_values as code (Vec<BasicBlock> harness falls under the CBMC builder blow-up); shapes beyond the enumeration only by seed',
    ]
