"""Engine A: Kani/CBMC harnesses over the real Rust functions of /repo/lib.

The harness fragments of /verif/harness/*.rs are appended to a scratch copy ("overlay") of
/repo/lib made from the *current working tree*; nothing is written into /repo.
"""
import os, re, shutil, concurrent.futures as cf
from . import common as C

HARNESS_DIR = os.path.join(C.VERIF, 'harness')

# harness fragment -> source file (relative to lib/) it is appended to
FRAGMENTS = {
    'layout.rs': 'src/uigen/layout.rs',
    'ceval.rs': 'src/tir/ceval.rs',
    'color.rs': 'src/color.rs',
    'astutil.rs': 'src/qmlast/astutil.rs',
    'uiexpr.rs': 'src/uigen/expr.rs',
    'qtname.rs': 'src/qtname.rs',
}


def _write_if_changed(path, data):
    try:
        with open(path, 'rb') as f:
            if f.read() == data:
                return False
    except FileNotFoundError:
        pass
    os.makedirs(os.path.dirname(path), exist_ok=True)
    with open(path, 'wb') as f:
        f.write(data)
    return True


def prepare_overlay(ws_name, fragments):
    """Copies /repo/lib to CACHE/kani/<ws_name>/lib with the harness fragments appended.
    Only files whose content changed are rewritten, so cargo's incremental build is effective."""
    ws = os.path.join(C.CACHE, 'kani', ws_name)
    lib = os.path.join(ws, 'lib')
    src_lib = os.path.join(C.REPO, 'lib')
    seen = set()
    for d, dn, fn in os.walk(src_lib):
        dn[:] = [x for x in dn if x not in ('target', '.git')]
        for f in fn:
            sp = os.path.join(d, f)
            rel = os.path.relpath(sp, src_lib)
            seen.add(rel)
            with open(sp, 'rb') as fh:
                data = fh.read()
            if rel == 'Cargo.toml':
                data += b'\n[workspace]\n'
            for frag, target in fragments.items():
                if rel == target:
                    with open(os.path.join(HARNESS_DIR, frag), 'rb') as fh:
                        data += b'\n' + fh.read()
            _write_if_changed(os.path.join(lib, rel), data)
    # remove files that disappeared from the tree
    for d, dn, fn in os.walk(lib):
        dn[:] = [x for x in dn if x != 'target']
        for f in fn:
            rel = os.path.relpath(os.path.join(d, f), lib)
            if rel not in seen and rel != 'Cargo.lock':
                os.remove(os.path.join(d, f))
    with open(os.path.join(C.REPO, 'Cargo.lock'), 'rb') as fh:
        _write_if_changed(os.path.join(lib, 'Cargo.lock'), fh.read())
    missing = [t for t in fragments.values() if t not in seen]
    if missing:
        raise C.Inconclusive('source files named by harness fragments are missing in /repo: %s' % missing)
    return ws


class HarnessResult:
    def __init__(self, name):
        self.name = name
        self.status = 'unknown'      # success | failed | timeout | oom | error
        self.failed_checks = []      # [(description, kind)]
        self.covers = {}             # description -> SATISFIED/UNSATISFIED/UNREACHABLE
        self.time_s = 0.0
        self.raw = ''

    def relevant_failures(self):
        """Failed checks other than Kani's built-in NaN-producing-operation checks (DESIGN 2.3)."""
        return [f for f in self.failed_checks if 'NaN on' not in f and 'NaN' not in f.split(':')[0]]


def _parse_terse(name, out):
    r = HarnessResult(name)
    r.raw = out
    for m in re.finditer(r'^Failed Checks: (.*)$', out, re.M):
        r.failed_checks.append(m.group(1).strip())
    for m in re.finditer(r'^\s*-? ?Status: (SATISFIED|UNSATISFIABLE|UNSATISFIED|UNREACHABLE)\s*\n\s*-? ?Description: "(.*?)"', out, re.M):
        r.covers[m.group(2)] = m.group(1)
    # regular (non-terse) cover report lines: "Check N: f.cover.1 - Status: SATISFIED - Description: "..."
    for m in re.finditer(r'cover\.\d+\s*\n\s*- Status: (\w+)\s*\n\s*- Description: "(.*?)"', out):
        r.covers[m.group(2)] = m.group(1)
    if 'VERIFICATION:- SUCCESSFUL' in out:
        r.status = 'success'
    elif 'VERIFICATION:- FAILED' in out:
        r.status = 'failed'
        if re.search(r'Status: ERROR|out of memory|std::bad_alloc|SIGKILL|CBMC failed', out):
            r.status = 'oom' if re.search(r'out of memory|bad_alloc', out) else 'error'
    elif 'CBMC timed out' in out or 'timed out' in out.lower():
        r.status = 'timeout'
    else:
        r.status = 'error'
    m = re.search(r'\*\* (\d+) of (\d+) cover properties satisfied', out)
    r.cover_sat, r.cover_total = (int(m.group(1)), int(m.group(2))) if m else (0, 0)
    m = re.search(r'Verification Time: ([\d.]+)s', out)
    if m:
        r.time_s = float(m.group(1))
    return r


def compile_errors(text):
    """extracts rustc error blocks from a noisy cargo-kani log"""
    out, keep = [], 0
    for l in text.split('\n'):
        if re.match(r'error(\[E\d+\])?:', l) and 'could not compile' not in l and 'exited with status' not in l:
            keep = 12
        if keep > 0:
            out.append(l[:300])
            keep -= 1
    return '\n'.join(out)[-3000:]


def build(ws, timeout=1500):
    """Compiles the overlay with kani (codegen only) so that harness runs start from a warm target dir."""
    lib = os.path.join(ws, 'lib')
    rc, out, err, s = C.run(['cargo', 'kani', '--only-codegen', '--target-dir', os.path.join(ws, 'target')],
                            cwd=lib, timeout=timeout)
    if rc != 0:
        raise C.Inconclusive('kani build of overlay failed (harness does not fit the edited tree?):\n' + compile_errors(err + out))
    return s


def run_one(ws, harness, timeout, mem_gb=12, extra=()):
    """Runs a single harness in its own cargo-kani process (own target dir slot is shared: cargo locks it
    only while compiling; CBMC runs outside the lock)."""
    lib = os.path.join(ws, 'lib')
    cmd = ['cargo', 'kani', '--target-dir', os.path.join(ws, 'target'), '--harness', harness, '--exact',
           '--output-format', 'terse'] + list(extra)
    rc, out, err, s = C.run(cmd, cwd=lib, timeout=timeout, mem_gb=None)
    r = _parse_terse(harness, out + '\n' + err)
    if rc == -9:
        r.status = 'timeout'
    r.time_s = r.time_s or s
    r.wall_s = s
    return r


def run_batch(ws, harnesses, timeout, jobs):
    """One cargo-kani process, -j jobs, all harnesses; parses per-harness sections."""
    lib = os.path.join(ws, 'lib')
    cmd = ['cargo', 'kani', '--target-dir', os.path.join(ws, 'target'), '--output-format', 'terse',
           '-j', str(jobs), '-Z', 'unstable-options', '--harness-timeout', f'{int(timeout)}s', '--exact']
    for h in harnesses:
        cmd += ['--harness', h]
    rc, out, err, s = C.run(cmd, cwd=lib, timeout=timeout * max(1, (len(harnesses) + jobs - 1) // jobs) + 900)
    text = out + '\n' + err
    if 'error: could not compile' in text or 'error[E' in text:
        raise C.Inconclusive('kani build of overlay failed (harness does not fit the edited tree?):\n' + compile_errors(text))
    res = {}
    # "-j" output: "Thread N: Checking harness <path>..." announces, "Thread N: \n<result>" reports
    cur = {}
    chunks = re.split(r'^(Thread \d+: |Manual Harness Summary:)', text, flags=re.M)
    i = 1
    while i < len(chunks):
        tag, body = chunks[i], chunks[i + 1]
        i += 2
        if tag.startswith('Manual'):
            break
        m = re.match(r'Checking harness ([\w:]+)\.\.\.', body)
        if m:
            cur[tag] = m.group(1)
            continue
        if tag in cur:
            short = cur[tag].split('::')[-1]
            res[short] = _parse_terse(short, body)
    if not cur:
        # single-threaded output: "Checking harness X..." followed directly by the result
        parts = re.split(r'^Checking harness ([\w:]+)\.\.\.', text, flags=re.M)
        for i in range(1, len(parts), 2):
            short = parts[i].split('::')[-1]
            res[short] = _parse_terse(short, parts[i + 1])
    for h in harnesses:
        if h.split('::')[-1] not in res:
            r = HarnessResult(h)
            r.status = 'timeout' if rc == -9 else 'error'
            r.raw = text[-2000:]
            res[h.split('::')[-1]] = r
    return res, text, s


# ----------------------------------------------------------------------------- generic runner
class Spec:
    """One proof obligation discharged by one Kani harness."""
    def __init__(self, full_name, function, bound, covers, tiers=('quick', 'thorough'), kind='pass',
                 timeout=None, finding_site=None):
        self.full_name = full_name
        self.name = full_name.split('::')[-1]
        self.function = function      # real function(s) symbolically executed
        self.bound = bound            # stated bound (text)
        self.covers = covers          # what the obligation says (text)
        self.tiers = tiers
        self.kind = kind              # 'pass' | 'witness'
        self.timeout = timeout
        self.finding_site = finding_site or self.name


def playback(ws, spec, timeout=900):
    """Replays a Kani counterexample natively (dev profile): lets Kani write the concrete test into the
    overlay source, then runs it as an ordinary unit test. Returns (reproduced: bool|None, text, test_src)."""
    lib = os.path.join(ws, 'lib')
    tgt = os.path.join(ws, 'target')
    cmd = ['cargo', 'kani', '--target-dir', tgt, '--harness', spec.full_name, '--exact', '--output-format', 'terse',
           '-Z', 'concrete-playback', '--concrete-playback=print']
    rc, out, err, s = C.run(cmd, cwd=lib, timeout=timeout)
    text = out + err
    blocks = re.findall(r'```\n(.*?)```', text, re.S)
    # Kani also prints playback tests for satisfied cover properties: only failed checks are of interest
    blocks = [b for b in blocks if 'Check for `cover`' not in b] or blocks
    if not blocks:
        return None, 'no concrete playback test was produced\n' + text[-1500:], ''
    test_src = '\n'.join(blocks[:4])
    names = re.findall(r'fn (kani_concrete_playback_\w+)', test_src)
    if not names:
        return None, 'cannot find playback test name', test_src
    test_name = 'kani_concrete_playback_'
    # put the test into the harness module of a second copy of the overlay file
    rel = None
    for frag, target in FRAGMENTS.items():
        fp = os.path.join(HARNESS_DIR, frag)
        if not os.path.exists(fp):
            continue
        with open(fp) as f:
            if ('fn ' + spec.name + '(') in f.read():
                rel = target
    if rel is None:
        return None, 'harness source not found', test_src
    path = os.path.join(lib, rel)
    with open(path) as f:
        orig = f.read()
    idx = orig.rstrip().rfind('}')
    patched = orig[:idx] + '\n' + test_src + '\n}\n'
    try:
        with open(path, 'w') as f:
            f.write(patched)
        rc, out, err, s = C.run(['cargo', 'kani', 'playback', '-Z', 'concrete-playback', '--lib', '--', test_name, '--nocapture'],
                                cwd=lib, timeout=timeout, env=dict(C.ENV, RUST_BACKTRACE='0'))
        text = out + err
        ran = [(int(a), int(b)) for a, b in re.findall(r'test result: \w+\. (\d+) passed; (\d+) failed', text) if int(a) + int(b) > 0]
        if not ran:
            errs = '\n'.join(l for l in text.split('\n') if l.startswith('error'))
            return None, 'playback test did not run\n' + errs[-1500:], test_src
        reproduced = any(b > 0 for a, b in ran)
        # keep only the panic message, not the whole build log
        pm = re.search(r"(thread '[^']*' (?:\(\d+\) )?panicked at [^\n]*\n[^\n]*\n)", text)
        return reproduced, (pm.group(1) if pm else text[-800:]), test_src
    finally:
        with open(path, 'w') as f:
            f.write(orig)


def check_property(res, ws_name, fragments, specs, jobs=None, default_timeout=None, into=None):
    """Runs the specs selected for the tier; fills res.coverage (proof-level keys)."""
    import time
    tier = C.tier()
    jobs = jobs or min(C.NCPU, 12)
    default_timeout = default_timeout or (300 if tier == 'quick' else 1200)
    sel = [s for s in specs if tier in s.tiers]
    t0 = time.time()
    with C.Lock('kani-' + ws_name):
        ws = prepare_overlay(ws_name, fragments)
        groups = {}
        for s in sel:
            groups.setdefault(s.timeout or default_timeout, []).append(s)
        results = {}
        log_text = ''
        for to, group in sorted(groups.items()):
            r, text, secs = run_batch(ws, [s.full_name for s in group], to, min(jobs, len(group)))
            results.update(r)
            log_text += text
        obligations, discharged, samples = [], 0, []
        for s in sel:
            r = results[s.name]
            entry = {'name': s.name, 'function': s.function, 'bound': s.bound, 'covers': s.covers, 'kind': s.kind,
                     'status': r.status, 'time_s': round(r.time_s, 2), 'cover_witnesses': f'{r.cover_sat}/{r.cover_total}'}
            ok = False
            if s.kind == 'witness':
                # must come back violated by exactly the witness assertion
                if r.status == 'failed' and r.failed_checks and all('reachability witness' in f for f in r.failed_checks):
                    ok = True
                    entry['result'] = 'witness reachable (as required)'
                else:
                    entry['result'] = 'VACUOUS or broken: witness assertion not reported as reachable'
                    res.inconc(f'{s.name}: reachability witness not violated ({r.status}, {r.failed_checks})')
            else:
                fails = r.relevant_failures()
                unwinding = [f for f in fails if 'unwinding assertion' in f]
                if r.status == 'success' or (r.status == 'failed' and not fails and r.failed_checks):
                    # second case: only NaN-classified built-in checks failed
                    if r.cover_sat != r.cover_total:
                        entry['result'] = f'cover witness lost ({r.cover_sat}/{r.cover_total})'
                        res.inconc(f'{s.name}: cover witnesses {r.cover_sat}/{r.cover_total} -- harness (partly) vacuous')
                    else:
                        ok = True
                        entry['result'] = 'holds within bound'
                        if r.failed_checks:
                            entry['ignored_builtin_checks'] = r.failed_checks
                elif r.status == 'failed' and unwinding:
                    entry['result'] = 'unwinding bound too small'
                    res.inconc(f'{s.name}: unwinding assertion failed -- bound too small for this tree')
                elif r.status == 'failed' and fails:
                    entry['failed_checks'] = fails
                    rep, text, test_src = playback(ws, s)
                    entry['replay'] = {'reproduced': rep, 'output': text[-600:]}
                    if rep:
                        d = C.new_replay_dir(res.prop, s.name)
                        with open(os.path.join(d, 'playback_test.rs'), 'w') as f:
                            f.write(test_src)
                        with open(os.path.join(d, 'README.txt'), 'w') as f:
                            f.write(f'harness: {s.full_name}\nfunction: {s.function}\nfailed checks: {fails}\n'
                                    f'native output:\n{text}\n\nreplay: append playback_test.rs to the harness module of '
                                    f'{ws}/lib and run `cargo kani playback -Z concrete-playback -- <test>` there, or run\n'
                                    f'  /verif/check {res.prop} --tier {tier}\n')
                        key = {'site': s.finding_site, 'checks': sorted(set(re.sub(r'\s+', ' ', f) for f in fails))}
                        new = res.violation(key, f'{s.name} ({s.function}): {fails}\n{text[-400:]}', d)
                        entry['result'] = 'VIOLATION (replayed natively)' if new else 'known finding (replayed natively)'
                        if not new:
                            entry['decided_as'] = 'known finding'
                    else:
                        entry['result'] = 'counterexample did not reproduce natively'
                        res.inconc(f'{s.name}: Kani counterexample not reproduced natively ({text[-200:]})')
                else:
                    entry['result'] = r.status
                    res.inconc(f'{s.name}: {r.status} ({r.raw[-300:].strip()})')
            discharged += ok
            obligations.append(entry)
    cov = res.coverage if into is None else res.coverage.setdefault(into, {})
    known = [o for o in obligations if o.get('decided_as') == 'known finding']
    cov['obligations'] = len(sel) - len(known)   # obligations refuted by a listed known finding are reported separately
    cov['discharged'] = discharged
    cov['known_finding_obligations'] = known
    cov['checker_cmd'] = 'cargo kani --harness <name> --exact --output-format terse  (kani 0.68.0 / CBMC 6.11.0 / CaDiCaL), overlay ' + os.path.join(C.CACHE, 'kani', ws_name)
    cov['trusted_base'] = ['rustc MIR -> Kani goto translation', 'CBMC 6.11 symbolic execution + CaDiCaL', 'Kani models of core/alloc', 'the oracle written in each harness']
    cov['samples'] = obligations
    cov['kani_wall_s'] = round(time.time() - t0, 1)
    cov['functions_encoded'] = sorted(set(s.function for s in sel))
    return results
