"""Parser and symbolic executor for the C++ that `qmluic generate-ui` emits (uisupport_*.h).

The emitter's output language is small and line-regular (lib/src/uigen/binding.rs): a declaration per local,
labelled blocks of three-address statements, `goto`/`if goto else goto`/`return`/`Q_UNREACHABLE()`.
Anything that does not match a known shape raises Unsupported -- never silently skipped.
The semantics given to each shape is C++'s (usual arithmetic conversions, implicit conversion on
assignment, undefined behaviour conditions), not the source language's.
"""
import re
import z3
from .sem import ListVal, bv, fresh, ite, sort_of, TRUE, FALSE, MAXL, INT, F64


class Unsupported(Exception):
    pass


class Func:
    def __init__(self, ret, name, params, body):
        self.ret, self.name, self.params, self.body = ret, name, params, body


def norm_cxx_type(t):
    t = t.strip()
    t = re.sub(r'^const\s+', '', t)
    t = t.replace('&', '').strip()
    m = re.fullmatch(r'([\w:]+)\s*\*', t)
    if m:
        return 'ptr:' + m.group(1)
    if '::' in t:            # enum type (Class::Enum)
        return 'enum:' + t.split('::')[-1]
    return t


class Header:
    def __init__(self, text):
        self.text = text
        self.funcs = {}
        self.setup_calls = []
        self.observer_sizes = {}
        self.binding_index = []
        self.guard_words = None
        self._parse()

    def _parse(self):
        lines = self.text.split('\n')
        i = 0
        while i < len(lines):
            ln = lines[i]
            m = re.match(r'^    ([\w:<>\* ]+?) ?\b(\w+)\((.*)\)$', ln)
            if m and i + 1 < len(lines) and lines[i + 1] == '    {':
                ret, name, params = m.groups()
                j = i + 2
                body = []
                while lines[j] != '    }':
                    body.append(lines[j])
                    j += 1
                ps = []
                if params.strip():
                    for p in params.split(','):
                        pm = re.fullmatch(r'\s*(.+?)\s*\b(a\d+|a)\s*', p)
                        if not pm:
                            raise Unsupported('parameter ' + p)
                        ps.append((norm_cxx_type(pm.group(1)), pm.group(2)))
                self.funcs[name] = Func(norm_cxx_type(ret), name, ps, body)
                i = j
            m = re.match(r'^    PropertyObserver observed(\w+)_\[(\d+)\];$', ln)
            if m:
                self.observer_sizes[m.group(1)] = int(m.group(2))
            m = re.match(r'^    quint32 bindingGuard_\[(\d+)\] = \{0\};$', ln)
            if m:
                self.guard_words = int(m.group(1))
            i += 1
        if 'setup' in self.funcs:
            for ln in self.funcs['setup'].body:
                m = re.fullmatch(r'\s*this->(\w+)\(\);', ln)
                if not m:
                    raise Unsupported('setup(): ' + ln)
                self.setup_calls.append(m.group(1))
        m = re.search(r'enum class BindingIndex : unsigned \{\n(.*?)\n    \};', self.text, re.S)
        if m:
            self.binding_index = [x.strip().rstrip(',') for x in m.group(1).split('\n') if x.strip()]

    def bindings(self):
        return [n[4:] for n in self.funcs if n.startswith('eval')]

    def callbacks(self):
        return [n[2:] for n in self.funcs if n.startswith('on')]

    def static_connections(self, suffix):
        """-> [(sender operand, class, signal, [arg types])] of setup<suffix>() of a binding"""
        out = []
        for ln in self.funcs['setup' + suffix].body:
            m = re.fullmatch(r'\s*QObject::connect\((.+?), QOverload<(.*?)>::of\(&([\w:]+)::(\w+)\), this->root_, '
                             r'\[this\]\(\) \{ this->update' + re.escape(suffix) + r'\(\); \}\);', ln)
            if not m:
                raise Unsupported('setup body: ' + ln)
            args = [norm_cxx_type(a) for a in m.group(2).split(',') if a.strip()]
            out.append((m.group(1), m.group(3), m.group(4), args))
        return out

    def update_target(self, suffix):
        """-> (receiver operand, setter, eval function) from update<suffix>()"""
        body = [l.strip() for l in self.funcs['update' + suffix].body if not l.startswith('#')]
        stmts = [l for l in body if not re.match(r'constexpr unsigned index|Q_ASSERT_X|this->bindingGuard_', l)]
        if len(stmts) != 1:
            raise Unsupported('update body: ' + repr(stmts))
        m = re.fullmatch(r'(.+?)->(\w+)\(this->(eval\w+)\(\)\);', stmts[0])
        if not m:
            raise Unsupported('update statement: ' + stmts[0])
        return m.group(1), m.group(2), m.group(3)

    def callback_connection(self, suffix):
        """-> (sender operand, class, signal, [overload arg types], [(type, name)] lambda params, [forwarded names])"""
        body = [l.strip() for l in self.funcs['setup' + suffix].body]
        if len(body) != 1:
            raise Unsupported('callback setup body: ' + repr(body))
        m = re.fullmatch(r'QObject::connect\((.+?), QOverload<(.*?)>::of\(&([\w:]+)::(\w+)\), this->root_, '
                         r'\[this\]\((.*?)\) \{ this->on' + re.escape(suffix) + r'\((.*?)\); \}\);', body[0])
        if not m:
            raise Unsupported('callback connect: ' + body[0])
        ov = [norm_cxx_type(a) for a in m.group(2).split(',') if a.strip()]
        lam = []
        for p in [x for x in m.group(5).split(',') if x.strip()]:
            pm = re.fullmatch(r'\s*(.+?)\s*\b(a\d+)\s*', p)
            lam.append((norm_cxx_type(pm.group(1)), pm.group(2)))
        fwd = [x.strip() for x in m.group(6).split(',') if x.strip()]
        return m.group(1), m.group(3), m.group(4), ov, lam, fwd


# ----------------------------------------------------------------------------------------- operands
_STR_ESC = {'n': '\n', 't': '\t', 'r': '\r', '0': '\0', '\\': '\\', '"': '"', "'": "'"}


def scan_string(s, i):
    """s[i] == '"' : Rust {:?} string literal -> (python str, index after closing quote)"""
    assert s[i] == '"'
    i += 1
    out = []
    while True:
        if i >= len(s):
            raise Unsupported('unterminated string literal')
        c = s[i]
        if c == '"':
            return ''.join(out), i + 1
        if c == '\\':
            n = s[i + 1]
            if n == 'u':
                m = re.match(r'u\{([0-9a-fA-F]+)\}', s[i + 1:])
                if not m:
                    raise Unsupported('escape in ' + s)
                out.append(chr(int(m.group(1), 16)))
                i += 1 + m.end()
                continue
            if n not in _STR_ESC:
                raise Unsupported('escape \\' + n)
            out.append(_STR_ESC[n])
            i += 2
            continue
        out.append(c)
        i += 1


def scan_operand(s, i):
    """-> (token tuple, next index).  tokens: ('local', 'a3') ('int', v) ('float', v) ('bool', v) ('str', v)
    ('qstr', v) ('null',) ('emptylist',) ('obj', name) ('root',) ('enum', 'Class::Variant') ('void',)"""
    if s.startswith('QStringLiteral(', i):
        v, j = scan_string(s, i + len('QStringLiteral('))
        if s[j] != ')':
            raise Unsupported('QStringLiteral: ' + s)
        return ('qstr', v), j + 1
    if s[i] == '"':
        v, j = scan_string(s, i)
        return ('str', v), j
    for rx, mk in _TOKENS:
        m = rx.match(s, i)
        if m:
            return mk(m), m.end()
    raise Unsupported('operand at: ' + s[i:])


_TOKENS = [(re.compile(p), f) for p, f in [
    (r'void\(\)', lambda m: ('void',)),
    (r'\{\}', lambda m: ('emptylist',)),
    (r'this->root_\b', lambda m: ('root',)),
    (r'this->ui_->(\w+)', lambda m: ('obj', m.group(1))),
    (r'nullptr\b', lambda m: ('null',)),
    (r'true\b', lambda m: ('bool', True)),
    (r'false\b', lambda m: ('bool', False)),
    (r'(a\d+|a)\b', lambda m: ('local', m.group(1))),
    (r'-?inf\b', lambda m: ('float', float(m.group(0)))),
    (r'NaN\b', lambda m: ('float', float('nan'))),
    (r'-?\d+(?:\.\d+)?e-?\d+', lambda m: ('float', float(m.group(0)))),
    (r'-?\d+\b(?!\.)', lambda m: ('int', int(m.group(0)))),
    (r'[A-Za-z_]\w*(?:::\w+)+', lambda m: ('enum', m.group(0))),
]]


def _unused():
    raise Unsupported('operand ' + tok)


class Val:
    __slots__ = ('ty', 't')

    def __init__(self, ty, t):
        self.ty, self.t = ty, t


class Exec:
    """symbolic execution of one emitted function body over a Store"""
    def __init__(self, func, env, prims, store, root_id, enums, observers=None, tag=''):
        self.f, self.env, self.P, self.store0, self.root_id, self.enums = func, env, prims, store, root_id, enums
        self.tag = tag
        self.bad = []        # (condition, reason)
        self.results = []    # dicts: pc, value (Val|None), store, effects, obs
        self.types, self.blocks, self.order = {}, {}, []
        self.uses_observers = False
        self.obs0 = observers if observers is not None else {}
        self._split()

    def _split(self):
        cur = None
        for ln in self.f.body:
            s = ln.strip()
            if not s or s.startswith('#'):
                continue
            if cur is None and s.startswith('auto &observed = '):
                self.uses_observers = True
                continue
            if cur is None and s.startswith('const auto update = [this]() { this->update'):
                continue
            m = re.fullmatch(r'(b\d+):', s)
            if m:
                cur = m.group(1)
                if cur in self.blocks:
                    raise Unsupported('label defined twice: ' + cur)
                self.blocks[cur] = []
                self.order.append(cur)
                continue
            if cur is None:
                m = re.fullmatch(r'(.+?) ?\b(a\d+);', s)
                if not m:
                    raise Unsupported('prologue: ' + s)
                self.types[m.group(2)] = norm_cxx_type(m.group(1))
                continue
            self.blocks[cur].append(s)
        for ty, n in self.f.params:
            self.types[n] = ty
        if not self.order:
            raise Unsupported('function without blocks: ' + self.f.name)

    # -------------------------------------------------------------------------------- static checks
    def static_problems(self):
        """C06 static part: every goto names a label defined once; every block ends in a terminator"""
        probs = []
        for lab, lines in self.blocks.items():
            if not lines:
                probs.append(f'{lab}: empty block (no terminator)')
                continue
            for s in lines:
                for t in re.findall(r'goto (\w+);', s):
                    if t not in self.blocks:
                        probs.append(f'{lab}: goto {t} names no label')
            last = lines[-1]
            if not (re.fullmatch(r'goto \w+;', last) or last.startswith('return') or last == 'Q_UNREACHABLE();'):
                probs.append(f'{lab}: does not end in a terminator: {last}')
        return probs

    # -------------------------------------------------------------------------------- values
    def operand(self, tok, st, want=None):
        k = tok[0]
        if k == 'local':
            n = tok[1]
            if n not in st['env']:
                raise Unsupported('undeclared local ' + n)
            self.bad.append((z3.And(st['pc'], z3.Not(st['asg'][n])), f'read of unassigned local {n}'))
            return Val(self.types[n], st['env'][n])
        if k == 'bool':
            return Val('bool', z3.BoolVal(tok[1]))
        if k == 'int':
            # integer literal: type int unless the context wants another arithmetic type (C++ would convert)
            if want == 'double':
                return Val('double', z3.FPVal(float(tok[1]), F64))
            if want == 'uint':
                return Val('uint', bv(tok[1]))
            if want and want.startswith('enum:'):
                return Val(want, bv(tok[1]))
            if not (-(1 << 31) <= tok[1] < (1 << 32)):
                raise Unsupported('integer literal outside 32 bits: %d' % tok[1])
            return Val('int' if tok[1] < (1 << 31) else 'uint', bv(tok[1]))
        if k == 'float':
            return Val('double', z3.FPVal(tok[1], F64))
        if k in ('str', 'qstr'):
            return Val('QString', z3.StringVal(tok[1]))
        if k == 'null':
            return Val(want if want and want.startswith('ptr:') else 'ptr:?', z3.IntVal(0))
        if k == 'emptylist':
            return Val('QStringList', ListVal(z3.IntVal(0), []))
        if k == 'obj':
            if tok[1] not in st['store'].oid:
                raise Unsupported('unknown object ' + tok[1])
            return Val('ptr:' + self.env.objects[tok[1]], z3.IntVal(st['store'].oid[tok[1]]))
        if k == 'root':
            return Val('ptr:' + self.env.objects[self.root_id], z3.IntVal(st['store'].oid[self.root_id]))
        if k == 'enum':
            cls, var = tok[1].rsplit('::', 1)
            for en, vals in self.enums.items():
                d = dict(vals)
                if var in d:
                    return Val('enum:' + en, bv(d[var]))
            raise Unsupported('enum variant ' + tok[1])
        if k == 'void':
            return Val('void', None)
        raise Unsupported('operand ' + repr(tok))

    def convert(self, v, to, st, why='assignment'):
        """C++ implicit conversion of value v to type `to` (on assignment / argument passing)"""
        if v.ty == to or to is None:
            return v
        if isinstance(v.t, ListVal):
            if to == 'QStringList':
                return v
            raise Unsupported(f'list to {to}')
        if v.ty.startswith('ptr:') and to.startswith('ptr:'):
            return Val(to, v.t)
        scal = ('int', 'uint', 'bool', 'double')
        frm = 'int' if v.ty.startswith('enum:') else v.ty
        tto = 'int' if to.startswith('enum:') else to
        if frm in scal and tto in scal:
            if v.ty.startswith('enum:') and to.startswith('enum:') and v.ty != to:
                raise Unsupported('enum to other enum')
            if to.startswith('enum:') and not v.ty.startswith('enum:'):
                raise Unsupported(f'{why}: C++ has no implicit conversion {v.ty} -> {to}')
            r, ub = self.P.cast(v.t, frm, tto)
            self.bad.append((z3.And(st['pc'], ub), f'UB: {why} {v.ty}->{to} out of range'))
            return Val(to, r)
        raise Unsupported(f'{why}: {v.ty} -> {to}')

    def usual(self, a, b, st):
        """usual arithmetic conversions of C++ -> (a', b', common type)"""
        ta = 'int' if a.ty == 'bool' else a.ty
        tb = 'int' if b.ty == 'bool' else b.ty
        if 'double' in (ta, tb):
            ct = 'double'
        elif 'uint' in (ta, tb):
            ct = 'uint'
        else:
            ct = 'int'
        return self.convert(a, ct, st, 'promotion'), self.convert(b, ct, st, 'promotion'), ct

    # -------------------------------------------------------------------------------- rvalues
    def rvalue(self, rhs, dty, st):
        P = self.P
        def ub(c, why):
            self.bad.append((z3.And(st['pc'], c), 'UB: ' + why))
        # static_cast
        m = re.fullmatch(r'static_cast<(.+?)>\((.*)\)', rhs)
        if m:
            to = norm_cxx_type(m.group(1))
            tok, j = scan_operand(m.group(2), 0)
            if j != len(m.group(2)):
                raise Unsupported('static_cast operand: ' + rhs)
            v = self.operand(tok, st)
            if to == 'void':
                return Val('void', None)
            if v.ty.startswith('ptr:') and to.startswith('ptr:'):
                return Val(to, v.t)
            frm = v.ty
            r, u = P.cast(v.t, frm, to)
            ub(u, f'static_cast {frm}->{to} out of range')
            return Val(to, r)
        # builtin calls
        m = re.fullmatch(r'std::(max|min)\((.*)\)', rhs)
        if m:
            a, j = scan_operand(m.group(2), 0)
            if not m.group(2).startswith(', ', j):
                raise Unsupported(rhs)
            b, j2 = scan_operand(m.group(2), j + 2)
            # std::max<T>(a, b) with T deduced: both arguments must have one type; literals adapt
            va = self.operand(a, st, dty)
            vb = self.operand(b, st, va.ty)
            va = self.operand(a, st, vb.ty)
            if va.ty != vb.ty:
                raise Unsupported(f'std::{m.group(1)} on {va.ty}, {vb.ty} does not compile')
            if va.ty == 'QString':
                lt = va.t < vb.t
            elif va.ty == 'bool':
                lt = z3.And(z3.Not(va.t), vb.t)
            elif va.ty == 'double':
                lt = z3.fpLT(va.t, vb.t)
            else:
                lt = P.icmp('<', va.ty != 'uint', va.t, vb.t)
            # std::max(a,b) = (a < b) ? b : a ; std::min(a,b) = (b < a) ? b : a
            if m.group(1) == 'max':
                return Val(va.ty, ite(lt, vb.t, va.t))
            if va.ty == 'QString':
                gt = vb.t < va.t
            elif va.ty == 'bool':
                gt = z3.And(z3.Not(vb.t), va.t)
            elif va.ty == 'double':
                gt = z3.fpLT(vb.t, va.t)
            else:
                gt = P.icmp('<', va.ty != 'uint', vb.t, va.t)
            return Val(va.ty, ite(gt, vb.t, va.t))
        m = re.fullmatch(r'QCoreApplication::translate\("(\w*)", (.*)\)', rhs)
        if m:
            tok, j = scan_operand(m.group(2), 0)
            return Val('QString', P.tr(self.operand(tok, st).t, z3.StringVal(m.group(1))))
        m = re.fullmatch(r'(qDebug|qInfo|qWarning|qCritical)\(\)\.noquote\(\)(.*)', rhs)
        if m:
            rest, args = m.group(2), []
            i = 0
            while i < len(rest):
                if not rest.startswith(' << ', i):
                    raise Unsupported('log: ' + rhs)
                tok, i = scan_operand(rest, i + 4)
                v = self.operand(tok, st)
                args.append((v.t, v.ty))
            level = {'qDebug': 'debug', 'qInfo': 'info', 'qWarning': 'warn', 'qCritical': 'error'}[m.group(1)]
            st['effects'].append(('log', None, level, args))
            return Val('void', None)
        # list construction  T{a, b}
        m = re.fullmatch(r'(QStringList|QList<QString>)\{(.*)\}', rhs)
        if m:
            elems, i, body = [], 0, m.group(2)
            while i < len(body):
                tok, i = scan_operand(body, i)
                elems.append(self.convert(self.operand(tok, st), 'QString', st).t)
                if body.startswith(', ', i):
                    i += 2
            if len(elems) > MAXL:
                raise Unsupported('list longer than the modelled bound')
            return Val('QStringList', ListVal(z3.IntVal(len(elems)), elems))
        # first operand, then what follows decides
        a, j = scan_operand(rhs, 0) if not re.match(r'[!~+-](?![\d.]|inf)', rhs) else (None, 0)
        if a is None:
            op = rhs[0]
            tok, j = scan_operand(rhs, 1)
            if j != len(rhs):
                raise Unsupported('unary: ' + rhs)
            v = self.operand(tok, st, dty if dty in ('int', 'uint', 'double') else None)
            if op == '!':
                return Val('bool', z3.Not(self.convert(v, 'bool', st, 'operand of !').t))
            if v.ty == 'bool':
                v = self.convert(v, 'int', st, 'promotion')
            if op == '+':
                return v
            if op == '~':
                if v.ty == 'double':
                    raise Unsupported('~ on double does not compile')
                return Val(v.ty, ~v.t)
            if v.ty == 'double':
                return Val('double', z3.fpNeg(v.t))
            r, u = P.ineg(v.ty != 'uint', v.t)
            ub(u, 'negation of INT_MIN')
            return Val(v.ty, r)
        if j == len(rhs):
            return self.operand(a, st, dty)                 # copy
        rest = rhs[j:]
        # member access on an operand:  x->m(args) / x.m(args) / x.at(i) / x[i] = v
        m = re.fullmatch(r'(->|\.)(\w+)\((.*)\)', rest)
        if m:
            recv = self.operand(a, st)
            acc, meth, argstr = m.groups()
            args, i = [], 0
            while i < len(argstr):
                tok, i = scan_operand(argstr, i)
                args.append(tok)
                if argstr.startswith(', ', i):
                    i += 2
                elif i != len(argstr):
                    raise Unsupported('arguments: ' + rhs)
            return self.member_call(recv, acc, meth, args, st)
        m = re.fullmatch(r'(->|\.)value<(.+?)>\(\)', rest)
        if m:
            raise Unsupported('QVariant cast is outside the modelled subset')
        m = re.fullmatch(r'\[(.+?)\] = (.+)', rest)
        if m:
            raise Unsupported('subscript assignment is outside the modelled subset')
        m = re.match(r' (\S+) ', rest)
        if m:
            op = m.group(1)
            b, j2 = scan_operand(rest, m.end())
            if j2 != len(rest):
                raise Unsupported('binary: ' + rhs)
            return self.binary(op, a, b, dty, st)
        raise Unsupported('rvalue: ' + rhs)

    def binary(self, op, ta, tb, dty, st):
        P = self.P
        def ub(c, why):
            self.bad.append((z3.And(st['pc'], c), 'UB: ' + why))
        # operands are typed on their own (an integer literal is an int); the usual arithmetic conversions
        # below do the rest.  Only nullptr takes the pointer type of the other side.
        va = self.operand(ta, st)
        vb = self.operand(tb, st, va.ty if tb[0] == 'null' else None)
        if ta[0] == 'null':
            va = self.operand(ta, st, vb.ty)
        arith = ('int', 'uint', 'bool', 'double')
        if op in ('<<', '>>'):
            if va.ty == 'bool':
                va = self.convert(va, 'int', st, 'promotion')
            if vb.ty == 'bool':
                vb = self.convert(vb, 'int', st, 'promotion')
            if va.ty not in ('int', 'uint') or vb.ty not in ('int', 'uint'):
                raise Unsupported(f'shift on {va.ty}, {vb.ty}')
            # count: negative (signed) or >= 32 is UB
            r, u = P.ishift(op, va.ty == 'int', va.t, vb.t)
            ub(u, 'shift count / signed left shift')
            return Val(va.ty, r)
        if va.ty == 'QString' and vb.ty == 'QString':
            if op == '+':
                return Val('QString', z3.Concat(va.t, vb.t))
            if op in ('==', '!=', '<', '<=', '>', '>='):
                return Val('bool', P.scmp(op, va.t, vb.t))
            raise Unsupported(f'{op} on QString')
        if va.ty.startswith('ptr:') and vb.ty.startswith('ptr:'):
            if op == '==':
                return Val('bool', va.t == vb.t)
            if op == '!=':
                return Val('bool', va.t != vb.t)
            raise Unsupported(f'{op} on pointers')
        if va.ty.startswith('enum:') or vb.ty.startswith('enum:'):
            ea = self.convert(va, 'int', st, 'promotion') if va.ty.startswith('enum:') else va
            eb = self.convert(vb, 'int', st, 'promotion') if vb.ty.startswith('enum:') else vb
            if op in ('==', '!=', '<', '<=', '>', '>='):
                ea, eb, ct = self.usual(ea, eb, st)
                return Val('bool', P.icmp(op, ct != 'uint', ea.t, eb.t))
            if op in ('&', '|', '^'):
                # QFlags / enum bit operators: value-wise on the underlying int; result assignable to the enum
                r = P.ibit(op, ea.t, eb.t)
                return Val(va.ty if va.ty.startswith('enum:') else vb.ty, r)
            raise Unsupported(f'{op} on enum')
        if va.ty in arith and vb.ty in arith:
            if va.ty == 'bool' and vb.ty == 'bool' and op in ('&', '|', '^'):
                # int result converted back to bool by the assignment: same truth table
                return Val('bool', P.bbit(op, va.t, vb.t))
            if va.ty == 'bool' and vb.ty == 'bool' and op in ('==', '!=', '<', '<=', '>', '>='):
                return Val('bool', P.bcmp(op, va.t, vb.t))
            a, b, ct = self.usual(va, vb, st)
            if op in ('+', '-', '*', '/', '%'):
                if ct == 'double':
                    if op == '%':
                        raise Unsupported('% on double does not compile')
                    return Val('double', P.farith(op, a.t, b.t))
                r, u = P.iarith(op, ct == 'int', a.t, b.t)
                ub(u, f'signed overflow / division by zero in {op}')
                return Val(ct, r)
            if op in ('&', '|', '^'):
                if ct == 'double':
                    raise Unsupported('bitwise on double does not compile')
                return Val(ct, P.ibit(op, a.t, b.t))
            if op in ('==', '!=', '<', '<=', '>', '>='):
                if ct == 'double':
                    return Val('bool', P.fcmp(op, a.t, b.t))
                return Val('bool', P.icmp(op, ct == 'int', a.t, b.t))
        raise Unsupported(f'binary {op} on {va.ty}, {vb.ty}')

    def member_call(self, recv, acc, meth, args, st):
        P = self.P
        if recv.ty.startswith('ptr:'):
            if acc != '->':
                raise Unsupported('. on pointer')
            cname = recv.ty[4:]
            if cname not in self.env.classes:
                raise Unsupported('class ' + cname)
            cls = self.env.cls(cname)
            # property getter?
            for p in cls.all_props().values():
                if p.read == meth and not args:
                    self.bad.append((z3.And(st['pc'], z3.Not(st['store'].valid_ptr(recv.t, p.name))), f'null dereference reading {p.name}'))
                    st['reads'].append((st['pc'], recv.t, p.name))
                    return Val(p.ty, st['store'].read(recv.t, p.name))
            for p in cls.all_props().values():
                if p.write == meth and len(args) == 1:
                    v = self.convert(self.operand(args[0], st, p.ty), p.ty, st, 'argument')
                    self.bad.append((z3.And(st['pc'], z3.Not(st['store'].valid_ptr(recv.t, p.name))), f'null dereference writing {p.name}'))
                    st['effects'].append(('set', recv.t, p.name, [(v.t, p.ty)]))
                    st['store'].write(recv.t, p.name, v.t)
                    return Val('void', None)
            cands = [m for m in cls.callables_named(meth) if len(m.args) == len(args)]
            if not cands:
                raise Unsupported(f'no member {meth}/{len(args)} in {cname}')
            # overload resolution: exact parameter-type match first, else the single viable candidate
            vals = [self.operand(a, st) for a in args]
            exact = [m for m in cands if all(v.ty == t or (a[0] == 'int' and t in ('int', 'uint', 'double')) or (v.ty == 'ptr:?' and t.startswith('ptr:'))
                                             for v, t, a in zip(vals, m.args, args))]
            m = (exact or cands)[0]
            if len(exact) > 1 or (not exact and len(cands) > 1):
                raise Unsupported(f'ambiguous call {meth}')
            cargs = [(self.convert(self.operand(a, st, t), t, st, 'argument').t, t) for a, t in zip(args, m.args)]
            self.bad.append((z3.And(st['pc'], recv.t == 0), f'null dereference calling {meth}'))
            st['effects'].append(('call', recv.t, meth, cargs))
            if m.ret == 'void':
                return Val('void', None)
            return Val(m.ret, P.call_ret(meth, recv.t, [a for a, _ in cargs], m.ret, len(st['effects'])))
        if acc != '.':
            raise Unsupported('-> on value')
        if recv.ty == 'QString':
            if meth == 'isEmpty' and not args:
                return Val('bool', z3.Length(recv.t) == 0)
            if meth == 'arg' and len(args) == 1:
                v = self.operand(args[0], st)
                return Val('QString', P.arg(recv.t, v.t, v.ty))
        if recv.ty == 'QStringList':
            if meth == 'isEmpty' and not args:
                return Val('bool', recv.t.len == 0)
            if meth == 'at' and len(args) == 1:
                i = self.operand(args[0], st)
                if i.ty == 'bool':
                    i = self.convert(i, 'int', st, 'promotion')
                if i.ty not in ('int', 'uint'):
                    raise Unsupported('index type ' + i.ty)
                ii = z3.BV2Int(i.t, i.ty == 'int')
                self.bad.append((z3.And(st['pc'], z3.Not(z3.And(ii >= 0, ii < recv.t.len))), 'subscript out of range'))
                return Val('QString', recv.t.at(ii))
        raise Unsupported(f'member {meth} on {recv.ty}')

    # -------------------------------------------------------------------------------- control flow
    def run(self, param_vals=None):
        st = {'pc': TRUE, 'env': {}, 'asg': {}, 'store': self.store0.copy(), 'effects': [], 'obs': dict(self.obs0), 'reads': []}
        for n, t in self.types.items():
            st['env'][n] = fresh(f'{self.tag}init_{n}', t) if t != 'void' else None
            st['asg'][n] = FALSE
        for (ty, n) in self.f.params:
            st['env'][n] = param_vals[n]
            st['asg'][n] = TRUE
        self._run(self.order[0], st, 0)
        return self.results, self.bad

    def _fork(self, st, extra):
        return {'pc': z3.And(st['pc'], extra), 'env': dict(st['env']), 'asg': dict(st['asg']), 'store': st['store'].copy(),
                'effects': list(st['effects']), 'obs': dict(st['obs']), 'reads': list(st['reads'])}

    def _run(self, label, st, depth):
        if depth > 400:
            raise Unsupported('control-flow cycle in emitted code')
        lines = self.blocks[label]
        i = 0
        while i < len(lines):
            s = lines[i]
            m = re.fullmatch(r'if \(Q_UNLIKELY\((.*observed\[\d+\].*)\)\) \{', s)
            if m:
                i = self._observer(lines, i, m, st)
                continue
            m = re.fullmatch(r'goto (b\d+);', s)
            if m:
                if i != len(lines) - 1:
                    raise Unsupported('statement after goto')
                if m.group(1) not in self.blocks:
                    self.bad.append((st['pc'], f'goto {m.group(1)}: no such label'))
                    return
                return self._run(m.group(1), st, depth + 1)
            m = re.fullmatch(r'if \((.+)\)', s)
            if m:
                tok, j = scan_operand(m.group(1), 0)
                c = self.convert(self.operand(tok, st), 'bool', st, 'condition').t
                mt = re.fullmatch(r'goto (b\d+);', lines[i + 1])
                mf = re.fullmatch(r'goto (b\d+);', lines[i + 3])
                if not (mt and mf and lines[i + 2] == 'else' and i + 4 == len(lines)):
                    raise Unsupported('conditional branch shape')
                for tgt, cond in ((mt.group(1), c), (mf.group(1), z3.Not(c))):
                    if tgt not in self.blocks:
                        self.bad.append((z3.And(st['pc'], cond), f'goto {tgt}: no such label'))
                        continue
                    self._run(tgt, self._fork(st, cond), depth + 1)
                return
            if s == 'return;':
                self.results.append({'pc': st['pc'], 'value': None, 'store': st['store'], 'effects': st['effects'], 'obs': st['obs'], 'reads': st['reads']})
                return
            m = re.fullmatch(r'return (.+);', s)
            if m:
                tok, j = scan_operand(m.group(1), 0)
                if j != len(m.group(1)):
                    raise Unsupported('return operand: ' + s)
                v = self.convert(self.operand(tok, st, self.f.ret), self.f.ret, st, 'return')
                self.results.append({'pc': st['pc'], 'value': v, 'store': st['store'], 'effects': st['effects'], 'obs': st['obs'], 'reads': st['reads']})
                return
            if s == 'Q_UNREACHABLE();':
                self.bad.append((st['pc'], 'reaches Q_UNREACHABLE()'))
                return
            m = re.fullmatch(r'static_cast<void>\((.+)\);', s)
            if m:
                tok, j = scan_operand(m.group(1), 0)
                self.operand(tok, st)
                i += 1
                continue
            m = re.fullmatch(r'(a\d+) = (.+);', s)
            if m and not re.match(r'a\d+ = .*\[.*\] = ', s):
                dst, rhs = m.groups()
                if dst not in self.types:
                    raise Unsupported('assignment to undeclared ' + dst)
                v = self.rvalue(rhs, self.types[dst], st)
                v = self.convert(v, self.types[dst], st)
                st['env'][dst] = v.t
                st['asg'][dst] = TRUE
                i += 1
                continue
            if s.endswith(';'):
                v = self.rvalue(s[:-1], None, st)      # Exec statement
                i += 1
                continue
            raise Unsupported('statement: ' + s)
        self.bad.append((st['pc'], f'control runs off the end of {label}'))

    # ---- observer blocks: interpreted statement by statement (not matched as one fixed shape) --------------------
    # slot memory: obj (recorded object), valid (connection valid), target (object the connection listens to),
    # sig (class, signal, overload of the connect statement that made it)
    def _slot(self, st, k):
        if not self.uses_observers:
            raise Unsupported('observer used without observed array')
        if k not in st['obs']:
            st['obs'][k] = {'obj': z3.Int(f'{self.tag}obs{k}.obj'), 'valid': z3.Bool(f'{self.tag}obs{k}.valid'),
                            'target': z3.Int(f'{self.tag}obs{k}.target'), 'sig': None}
        return st['obs'][k]

    def _obs_cond(self, text, st):
        """boolean expression over observed[k].connection / observed[k].object ==|!= aN / aN with ! || && ( )"""
        toks = re.findall(r'observed\[\d+\]\.connection|observed\[\d+\]\.object|a\d+|nullptr|\|\||&&|==|!=|!|\(|\)', text)
        if ''.join(toks) != text.replace(' ', ''):
            raise Unsupported('observer condition: ' + text)
        pos = [0]

        def peek():
            return toks[pos[0]] if pos[0] < len(toks) else None

        def take():
            t = toks[pos[0]]
            pos[0] += 1
            return t

        def ptr(tok):
            if tok == 'nullptr':
                return z3.IntVal(0)
            if tok.endswith('.object'):
                return self._slot(st, int(re.search(r'\d+', tok).group(0)))['obj']
            return self.operand(('local', tok), st).t

        def atom():
            t = take()
            if t == '!':
                return z3.Not(atom())
            if t == '(':
                v = disj()
                if take() != ')':
                    raise Unsupported('observer condition: ' + text)
                return v
            if t.endswith('.connection'):
                return self._slot(st, int(re.search(r'\d+', t).group(0)))['valid']
            if t.endswith('.object') or re.fullmatch(r'a\d+|nullptr', t):
                if peek() in ('==', '!='):
                    op = take()
                    r = ptr(take())
                    return ptr(t) == r if op == '==' else ptr(t) != r
                return ptr(t) != 0
            raise Unsupported('observer condition: ' + text)

        def conj():
            v = atom()
            while peek() == '&&':
                take()
                v = z3.And(v, atom())
            return v

        def disj():
            v = conj()
            while peek() == '||':
                take()
                v = z3.Or(v, conj())
            return v
        v = disj()
        if pos[0] != len(toks):
            raise Unsupported('observer condition: ' + text)
        return v

    def _observer(self, lines, i, m, st):
        cond = self._obs_cond(m.group(1), st)
        # statements up to the matching brace
        depth, j = 1, i + 1
        guards = [cond]
        while j < len(lines):
            s = lines[j]
            if s == '}':
                depth -= 1
                guards.pop()
                j += 1
                if depth == 0:
                    return j
                continue
            g = z3.And(*guards)
            mm = re.fullmatch(r'if \((a\d+)\) \{', s)
            if mm:
                guards.append(self.operand(('local', mm.group(1)), st).t != 0)
                depth += 1
                j += 1
                continue
            mm = re.fullmatch(r'QObject::disconnect\(observed\[(\d+)\]\.connection\);', s)
            if mm:
                o = dict(self._slot(st, int(mm.group(1))))
                o['valid'] = z3.If(g, False, o['valid'])
                st['obs'][int(mm.group(1))] = o
                j += 1
                continue
            mm = re.fullmatch(r'observed\[(\d+)\]\.connection = QObject::connect\((a\d+), QOverload<(.*?)>::of\(&([\w:]+)::(\w+)\), this->root_, update\);', s)
            if mm:
                k = int(mm.group(1))
                p = self.operand(('local', mm.group(2)), st).t
                o = dict(self._slot(st, k))
                sig = (mm.group(4), mm.group(5), [norm_cxx_type(a) for a in mm.group(3).split(',') if a.strip()])
                if o['sig'] is not None and o['sig'] != sig:
                    raise Unsupported(f'observer slot {k} connected to two different signals')
                # connect() on a null sender yields an invalid connection
                o['valid'] = z3.If(g, p != 0, o['valid'])
                o['target'] = z3.If(g, p, o['target'])
                o['sig'] = sig
                st['obs'][k] = o
                j += 1
                continue
            mm = re.fullmatch(r'observed\[(\d+)\]\.object = (a\d+|nullptr);', s)
            if mm:
                k = int(mm.group(1))
                p = z3.IntVal(0) if mm.group(2) == 'nullptr' else self.operand(('local', mm.group(2)), st).t
                o = dict(self._slot(st, k))
                o['obj'] = z3.If(g, p, o['obj'])
                st['obs'][k] = o
                j += 1
                continue
            raise Unsupported('statement in observer block: ' + s)
        raise Unsupported('observer block without closing brace')
