"""Source language of the generated corpus: AST constructors, pretty printer (QML/JS text) and the
documented static typing (docs/language.md) -- written independently of the implementation.

Expressions (tuples):
  ('lit', ty, v)            ty in int|double|bool|QString|null ; int literals are untyped constants ('cint')
  ('obj', id)               object reference by id
  ('this',)                 the object owning the binding
  ('prop', e, name)         property read on pointer-valued e
  ('iprop', name)           implicit-this property read
  ('local', name)           local variable / parameter
  ('un', op, e)             + - ~ !
  ('bin', op, l, r)         + - * / % & ^ | << >> == != < <= > >= && ||
  ('tern', c, a, b)
  ('cast', e, ty)           e as ty
  ('call', 'max'|'min', a, b)
  ('isEmpty', e)
  ('sub', e, i)             list subscript
  ('arr', [e...])           array literal
  ('enum', 'Mode', 'ModeB') enum variant  (printed VNode.ModeB)
  ('tr', 'text')            qsTr("text")
  ('arg', s, x)             s.arg(x)
Statements (tuples):
  ('let', kind, name, annot|None, expr|None)    kind in let|const
  ('assign', name, expr)
  ('expr', expr)
  ('if', c, [s], [s]|None)
  ('switch', e, [(case_expr|None, [s])...])     None = default
  ('break',)
  ('return', expr|None)
  ('block', [s])
  ('setprop', objexpr, name, expr)   obj.name = expr          (callbacks)
  ('callm', objexpr, meth, [args])   obj.meth(args)           (callbacks)
  ('log', level, [args])             console.<level>(args)    (callbacks)
"""
import json

INT_T = ('int', 'uint')
NUM_T = ('int', 'uint', 'double')


class IllTyped(Exception):
    pass


class Env:
    """static environment: object ids -> class, class description, locals"""
    def __init__(self, classes, objects, this=None):
        self.classes = classes          # name -> ClassDesc
        self.objects = objects          # id -> class name
        self.this = this                # id of the binding's owner

    def cls(self, name):
        return self.classes[name]


# ----------------------------------------------------------------------------- pretty printer
def q(s):
    return json.dumps(s, ensure_ascii=False)


def pp(e):
    k = e[0]
    if k == 'lit':
        ty, v = e[1], e[2]
        if ty == 'bool':
            return 'true' if v else 'false'
        if ty == 'QString':
            return q(v)
        if ty == 'double':
            r = repr(float(v))
            return r if ('.' in r or 'e' in r) else r + '.0'
        if ty == 'null':
            return 'null'
        return str(v)
    if k == 'rawlit':
        return e[2]                 # ('rawlit', ty, source spelling, value)
    if k == 'obj':
        return e[1]
    if k == 'this':
        return 'this'
    if k == 'prop':
        return f'{pp(e[1])}.{e[2]}'
    if k == 'iprop':
        return e[1]
    if k == 'local':
        return e[1]
    if k == 'un':
        inner = pp(e[2])
        # no parentheses directly after a comparison operator: tree-sitter-qmljs reads `x < (-2)` as a type
        # argument list ("syntax error: missing >")
        return f'{e[1]}({inner})' if inner.startswith(('-', '+', '!', '~')) else f'{e[1]}{inner}'
    if k == 'bin':
        return f'({pp(e[2])} {e[1]} {pp(e[3])})'
    if k == 'tern':
        return f'({pp(e[1])} ? {pp(e[2])} : {pp(e[3])})'
    if k == 'cast':
        return f'({pp(e[1])} as {qml_type(e[2])})'
    if k == 'call':
        return f'Math.{e[1]}({pp(e[2])}, {pp(e[3])})'
    if k == 'isEmpty':
        return f'{pp(e[1])}.isEmpty()'
    if k == 'sub':
        return f'{pp(e[1])}[{pp(e[2])}]'
    if k == 'arr':
        return '[' + ', '.join(pp(x) for x in e[1]) + ']'
    if k == 'enum':
        return f'VNode.{e[2]}'
    if k == 'tr':
        return f'qsTr({q(e[1])})'
    if k == 'arg':
        return f'{pp(e[1])}.arg({pp(e[2])})'
    raise ValueError(e)


# ----------------------------------------------------------------------------- minimal-parentheses printer
# ECMAScript operator precedence (higher binds tighter); all binary operators used here are left-associative
_PREC = {'*': 13, '/': 13, '%': 13, '+': 12, '-': 12, '<<': 11, '>>': 11, '<': 10, '<=': 10, '>': 10, '>=': 10,
         '==': 9, '!=': 9, '&': 8, '^': 7, '|': 6, '&&': 5, '||': 4}


def _prec(e):
    k = e[0]
    if k == 'bin':
        return _PREC[e[1]]
    if k == 'tern':
        return 3
    if k == 'un':
        return 15
    if k == 'lit' and e[1] in ('int', 'double') and isinstance(e[2], (int, float)) and not isinstance(e[2], bool) and (e[2] < 0 or repr(e[2]).startswith('-')):
        return 15       # a negative literal is a unary expression
    return 20


def pp_min(e, strict=0):
    """prints with the parentheses JavaScript needs and no others (so that precedence and associativity are decided
    by the real parser); `strict` alternates == / != with their aliases === / !=="""
    k = e[0]

    def sub(x, need):
        t = pp_min(x, strict)
        return f'({t})' if _prec(x) < need else t
    if k == 'un':
        inner = e[2]
        t = pp_min(inner, strict)
        if _prec(inner) < 15 or inner[0] == 'un' or t.startswith(('-', '+')):
            t = f'({t})'
        return e[1] + t
    if k == 'bin':
        op = e[1]
        p_ = _PREC[op]
        l = sub(e[2], p_)
        r = sub(e[3], p_ + 1)
        # a comparison directly inside a comparison stays parenthesised: `a < b > c` is read as type arguments
        if p_ == 10:
            if e[2][0] == 'bin' and _PREC[e[2][1]] == 10:
                l = f'({pp_min(e[2], strict)})'
        if op in ('==', '!=') and strict:
            op = op + '='
        return f'{l} {op} {r}'
    if k == 'tern':
        c = sub(e[1], 4)
        return f'{c} ? {sub(e[2], 3)} : {sub(e[3], 3)}'
    if k == 'prop':
        return f'{sub(e[1], 20)}.{e[2]}'
    if k == 'cast':
        # `as` sits at the relational level: anything at or below it is parenthesised
        return f'({sub(e[1], 11)} as {qml_type(e[2])})'
    if k == 'call':
        return f'Math.{e[1]}({pp_min(e[2], strict)}, {pp_min(e[3], strict)})'
    if k == 'isEmpty':
        return f'{sub(e[1], 20)}.isEmpty()'
    if k == 'sub':
        return f'{sub(e[1], 20)}[{pp_min(e[2], strict)}]'
    if k == 'arr':
        return '[' + ', '.join(pp_min(x, strict) for x in e[1]) + ']'
    if k == 'arg':
        return f'{sub(e[1], 20)}.arg({pp_min(e[2], strict)})'
    return pp(e)


def qml_type(t):
    if t.startswith('ptr:'):
        return t[4:]
    if t.startswith('enum:'):
        return 'VNode.' + t[5:]
    return t


def pps(ss, ind=''):
    out = []
    for s in ss:
        k = s[0]
        if k == 'let':
            _, kind, name, ann, e = s
            out.append(f'{ind}{kind} {name}' + (f': {qml_type(ann)}' if ann else '') + (f' = {pp(e)}' if e is not None else '') + ';')
        elif k == 'assign':
            out.append(f'{ind}{s[1]} = {pp(s[2])};')
        elif k == 'expr':
            out.append(f'{ind}{pp(s[1])};')
        elif k == 'if':
            out.append(f'{ind}if ({pp(s[1])}) {{')
            out += pps(s[2], ind + '  ')
            if s[3] is not None:
                out.append(f'{ind}}} else {{')
                out += pps(s[3], ind + '  ')
            out.append(f'{ind}}}')
        elif k == 'switch':
            out.append(f'{ind}switch ({pp(s[1])}) {{')
            for v, body in s[2]:
                out.append(f'{ind}' + (f'case {pp(v)}:' if v is not None else 'default:'))
                out += pps(body, ind + '  ')
            out.append(f'{ind}}}')
        elif k == 'break':
            out.append(f'{ind}break;')
        elif k == 'return':
            out.append(f'{ind}return {pp(s[1])};' if s[1] is not None else f'{ind}return;')
        elif k == 'block':
            out.append(f'{ind}{{')
            out += pps(s[1], ind + '  ')
            out.append(f'{ind}}}')
        elif k == 'setprop':
            out.append(f'{ind}{pp(s[1])}.{s[2]} = {pp(s[3])};')
        elif k == 'callm':
            out.append(f'{ind}{pp(s[1])}.{s[2]}(' + ', '.join(pp(a) for a in s[3]) + ');')
        elif k == 'log':
            out.append(f'{ind}console.{s[1]}(' + ', '.join(pp(a) for a in s[2]) + ');')
        elif k == 'ternstmt':
            out.append(f'{ind}{stmt_as_expr(s)};')
        else:
            raise ValueError(s)
    return out


def stmt_as_expr(s):
    """a void statement written as an expression (arms of a conditional expression used as a statement)"""
    k = s[0]
    if k == 'ternstmt':
        a, b = stmt_as_expr(s[2]), stmt_as_expr(s[3])
        a = f'({a})' if s[2][0] == 'ternstmt' else a
        b = f'({b})' if s[3][0] == 'ternstmt' else b
        return f'{pp(s[1])} ? {a} : {b}'
    if k == 'callm':
        return f'{pp(s[1])}.{s[2]}(' + ', '.join(pp(a) for a in s[3]) + ')'
    if k == 'setprop':
        return f'({pp(s[1])}.{s[2]} = {pp(s[3])})'
    if k == 'assign':
        return f'({s[1]} = {pp(s[2])})'
    if k == 'log':
        return f'console.{s[1]}(' + ', '.join(pp(a) for a in s[2]) + ')'
    raise ValueError(s)


# ----------------------------------------------------------------------------- documented typing
# types: 'cint' (untyped integer constant), 'cstr' (untyped string constant), 'cnull', 'cempty',
#        'int','uint','double','bool','QString','QStringList', 'ptr:<Class>', 'enum:<Name>', 'void'

def conc(t):
    """concrete type of a value of (possibly constant) type t where the language falls back to a default"""
    return {'cint': 'int', 'cstr': 'QString'}.get(t, t)


def unify(l, r):
    """one common type, no implicit conversion (docs: 'Operands are statically type checked')"""
    if l == r:
        return l
    for a, b in ((l, r), (r, l)):
        if a == 'cint' and b in INT_T:
            return b
        if a == 'cstr' and b == 'QString':
            return b
        if a == 'cnull' and b.startswith('ptr:'):
            return b
        if a == 'cempty' and b == 'QStringList':
            return b
    raise IllTyped(f'{l} vs {r}')


def assignable(env, dst, src):
    """no implicit conversion other than object upcast on assignment"""
    if dst == src:
        return True
    if src == 'cint' and dst in INT_T:
        return True
    if src == 'cstr' and dst == 'QString':
        return True
    if src == 'cnull' and dst.startswith('ptr:'):
        return True
    if src == 'cempty' and dst == 'QStringList':
        return True
    if dst.startswith('ptr:') and src.startswith('ptr:'):
        return env.cls(src[4:]).derives_from(dst[4:])
    return False


class Scope:
    """lexical scope of local variables: name -> (type, kind, variable id).  A declaration in an inner
    scope shadows the outer one for the rest of that scope only."""
    _n = [0]

    def __init__(self, parent=None):
        self.vars = dict(parent.vars) if parent else {}
        self.own = {}

    def child(self):
        return Scope(self)

    def declare(self, name, ty, kind):
        if name not in self.own:
            Scope._n[0] += 1
            self.own[name] = f'{name}#{Scope._n[0]}'
        self.vars[name] = (ty, kind, self.own[name])
        return self.own[name]


def typeof(e, env, sc):
    k = e[0]
    if k in ('lit', 'rawlit'):
        return {'int': 'cint', 'QString': 'cstr', 'null': 'cnull'}.get(e[1], e[1])
    if k == 'obj':
        return 'ptr:' + env.objects[e[1]]
    if k == 'this':
        return 'ptr:' + env.objects[env.this]
    if k == 'local':
        if e[1] not in sc.vars:
            raise IllTyped('undefined ' + e[1])
        return sc.vars[e[1]][0]
    if k in ('prop', 'iprop'):
        ot = typeof(e[1], env, sc) if k == 'prop' else 'ptr:' + env.objects[env.this]
        name = e[2] if k == 'prop' else e[1]
        if not ot.startswith('ptr:'):
            raise IllTyped('property of non-object')
        p = env.cls(ot[4:]).prop(name)
        if p is None:
            raise IllTyped('no property ' + name)
        return p.ty
    if k == 'enum':
        return 'enum:' + e[1]
    if k == 'tr':
        return 'QString'
    if k == 'arr':
        if not e[1]:
            return 'cempty'
        t = typeof(e[1][0], env, sc)
        for x in e[1][1:]:
            t = unify(t, typeof(x, env, sc))
        if conc(t) in ('cnull', 'cempty'):
            raise IllTyped('array of undetermined element type')
        return 'QStringList' if conc(t) == 'QString' else 'list:' + conc(t)
    if k == 'cast':
        s, t = conc(typeof(e[1], env, sc)), e[2]
        if s == t:
            return t
        if t == 'void':
            return 'void'
        if s in NUM_T and t in NUM_T:
            return t
        if s == 'bool' and t in INT_T:
            return t
        if s.startswith('enum:') and t in INT_T:
            return t
        if s.startswith('ptr:') and t.startswith('ptr:') and env.cls(s[4:]).derives_from(t[4:]):
            return t
        raise IllTyped(f'cast {s} as {t}')
    if k == 'un':
        t = typeof(e[2], env, sc)
        op = e[1]
        if op == '!':
            if t != 'bool':
                raise IllTyped('! on ' + t)
            return 'bool'
        if op in '+-':
            if t not in ('cint',) + NUM_T:
                raise IllTyped(op + ' on ' + t)
            return t
        if op == '~':
            if t not in ('cint',) + INT_T and not t.startswith('enum:'):
                raise IllTyped('~ on ' + t)
            return t
    if k == 'bin':
        op = e[1]
        l, r = typeof(e[2], env, sc), typeof(e[3], env, sc)
        if op in ('&&', '||'):
            if l != 'bool' or r != 'bool':
                raise IllTyped('condition must be bool')
            return 'bool'
        if op in ('<<', '>>'):
            if l not in ('cint',) + INT_T or r not in ('cint',) + INT_T:
                raise IllTyped('shift on ' + l + ',' + r)
            if l == 'cint' and r == 'cint':
                return 'cint'
            return conc(l)
        t = unify(l, r)
        if op in ('+', '-', '*', '/', '%'):
            if t in ('cint',) + NUM_T:
                return t
            if t in ('cstr', 'QString') and op == '+':
                return t
            raise IllTyped(op + ' on ' + t)
        if op in ('&', '|', '^'):
            if t in ('cint', 'bool') + INT_T or t.startswith('enum:'):
                return t
            raise IllTyped(op + ' on ' + t)
        if op in ('==', '!=', '<', '<=', '>', '>='):
            ct = conc(t)
            if ct in NUM_T + ('bool', 'QString') or ct.startswith('enum:') or ct.startswith('ptr:') or ct == 'cnull':
                return 'bool'
            raise IllTyped(op + ' on ' + t)
    if k == 'tern':
        if typeof(e[1], env, sc) != 'bool':
            raise IllTyped('condition must be bool')
        t = conc(unify(typeof(e[2], env, sc), typeof(e[3], env, sc)))
        if t in ('cnull', 'cempty'):
            raise IllTyped('undetermined')
        return t
    if k == 'call':
        t = conc(unify(typeof(e[2], env, sc), typeof(e[3], env, sc)))
        if t not in NUM_T + ('bool', 'QString'):
            raise IllTyped('min/max on ' + t)
        return t
    if k == 'isEmpty':
        t = conc(typeof(e[1], env, sc))
        if t not in ('QString', 'QStringList'):
            raise IllTyped('isEmpty on ' + t)
        return 'bool'
    if k == 'sub':
        t = typeof(e[1], env, sc)
        it = typeof(e[2], env, sc)
        if t != 'QStringList' or it not in ('cint',) + INT_T:
            raise IllTyped('subscript')
        return 'QString'
    if k == 'arg':
        if conc(typeof(e[1], env, sc)) != 'QString':
            raise IllTyped('arg on non-string')
        if conc(typeof(e[2], env, sc)) not in NUM_T + ('QString',):
            raise IllTyped('QString::arg takes a number or a string')
        return 'QString'
    raise IllTyped(str(e))


def has_dynamic(e):
    """does the expression read run-time state (so that the binding is not a .ui constant)?"""
    if e[0] in ('prop', 'iprop'):
        return True
    return any(isinstance(x, tuple) and has_dynamic(x) for x in e[1:]) or \
        any(isinstance(x, list) and any(isinstance(y, tuple) and has_dynamic(y) for y in x) for x in e[1:])
