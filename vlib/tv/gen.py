"""Corpus generators: bounded-exhaustive enumerations and seeded random programs over the VNode environment.
Every program is produced from a typed grammar, so its AST (and hence its reference meaning) is known without
parsing QML a second time."""
import itertools, random
from . import lang as L

OBJ = ['a', 'b', 'c']
TYPES = ['int', 'uint', 'bool', 'double', 'QString']
TARGET = {'int': 'ival', 'uint': 'uval', 'bool': 'flag', 'double': 'dval', 'QString': 'sval',
          'ptr:VNode': 'next', 'enum:Mode': 'mode', 'QStringList': 'items'}
PROP_OF = dict(TARGET)


def P(o, p):
    return ('prop', ('obj', o), p)


def lit(ty, v):
    return ('lit', ty, v)


FULL_LEAVES = {
    'int': [P('a', 'ival'), P('b', 'ival'), P('a', 'cval'), lit('int', 0), lit('int', 1), lit('int', 3), lit('int', 7), lit('int', -2)],
    'uint': [P('a', 'uval'), P('b', 'uval')],
    'bool': [P('a', 'flag'), P('b', 'flag'), lit('bool', True), lit('bool', False)],
    'double': [P('a', 'dval'), P('b', 'dval'), lit('double', 1.5), lit('double', 0.0)],
    'QString': [P('a', 'sval'), P('b', 'sval'), lit('QString', 'q'), lit('QString', '')],
    'ptr:VNode': [('obj', 'a'), ('obj', 'b'), P('a', 'next'), lit('null', None)],
    'enum:Mode': [P('a', 'mode'), ('enum', 'Mode', 'ModeB'), ('enum', 'Mode', 'ModeD')],
    'QStringList': [P('a', 'items'), ('arr', [P('a', 'sval'), lit('QString', 'x')])],
}
CANON_LEAVES = {
    'int': [P('a', 'ival'), lit('int', 3), P('b', 'ival')],
    'uint': [P('a', 'uval'), P('b', 'uval')],
    'bool': [P('a', 'flag'), P('b', 'flag'), lit('bool', True)],
    'double': [P('a', 'dval'), lit('double', 1.5), P('b', 'dval')],
    'QString': [P('a', 'sval'), lit('QString', 'q'), P('b', 'sval')],
    'ptr:VNode': [P('a', 'next'), ('obj', 'b'), lit('null', None)],
    'enum:Mode': [P('a', 'mode'), ('enum', 'Mode', 'ModeB')],
    'QStringList': [P('a', 'items')],
}
SHIFT_COUNTS = [lit('int', 1), lit('int', 3), P('b', 'ival'), P('b', 'uval')]


def productions(ty):
    """-> [(tag, [child types], builder)]"""
    out = []
    def bn(op, lt, rt=None):
        out.append((op + ':' + lt, [lt, rt or lt], lambda l, r, op=op: ('bin', op, l, r)))
    def un(op, t):
        out.append((op + 'u:' + t, [t], lambda a, op=op: ('un', op, a)))
    if ty != 'QStringList':
        out.append(('?:' + ty, ['bool', ty, ty], lambda c, a, b: ('tern', c, a, b)))
    if ty in ('int', 'uint'):
        for op in ('+', '-', '*', '/', '%', '&', '^', '|'):
            bn(op, ty)
        for op in ('<<', '>>'):
            out.append((op + ':' + ty, [ty, 'count'], lambda l, r, op=op: ('bin', op, l, r)))
        for op in ('-', '+', '~'):
            un(op, ty)
        for s in ('int', 'uint', 'double', 'bool', 'enum:Mode'):
            if s != ty:
                out.append((f'as:{s}>{ty}', [s], lambda a, ty=ty: ('cast', a, ty)))
        for f in ('max', 'min'):
            out.append((f + ':' + ty, [ty, ty], lambda a, b, f=f: ('call', f, a, b)))
    elif ty == 'double':
        for op in ('+', '-', '*', '/'):
            bn(op, ty)
        for op in ('-', '+'):
            un(op, ty)
        for s in ('int', 'uint'):
            out.append((f'as:{s}>double', [s], lambda a: ('cast', a, 'double')))
    elif ty == 'bool':
        un('!', 'bool')
        for op in ('&&', '||', '&', '|', '^'):
            bn(op, 'bool')
        for t in ('int', 'uint', 'double', 'QString', 'bool'):
            for op in ('==', '!=', '<', '<=', '>', '>='):
                bn(op, t)
        for t in ('ptr:VNode', 'enum:Mode'):
            for op in ('==', '!='):
                bn(op, t)
        for t in ('QString', 'QStringList'):
            out.append(('isEmpty:' + t, [t], lambda a: ('isEmpty', a)))
    elif ty == 'QString':
        bn('+', 'QString')
        for f in ('max', 'min'):
            out.append((f + ':QString', [ty, ty], lambda a, b, f=f: ('call', f, a, b)))
        out.append(('sub', ['QStringList', 'index'], lambda l, i: ('sub', l, i)))
        out.append(('arg:int', ['QString', 'int'], lambda s, x: ('arg', s, x)))
        out.append(('tr', [], lambda: ('tr', 'hello')))
    elif ty == 'ptr:VNode':
        out.append(('next', ['ptr:VNode'], lambda a: ('prop', a, 'next')))
    elif ty == 'enum:Mode':
        for op in ('&', '|', '^'):
            bn(op, ty)
        un('~', ty)
    elif ty == 'QStringList':
        out.append(('arr2', ['QString', 'QString'], lambda a, b: ('arr', [a, b])))
        out.append(('arr1', ['QString'], lambda a: ('arr', [a])))
    return out


def leaves(ty, full=True):
    if ty == 'count':
        return SHIFT_COUNTS
    if ty == 'index':
        return [lit('int', 0), lit('int', 1), P('b', 'ival')]
    return (FULL_LEAVES if full else CANON_LEAVES)[ty]


def child_type(ty):
    return {'count': 'int', 'index': 'int'}.get(ty, ty)


def enum_depth1(ty):
    """every production applied to every tuple of leaves of the full alphabet"""
    for tag, cts, build in productions(ty):
        for kids in itertools.product(*[leaves(c) for c in cts]):
            yield build(*kids)


def enum_pairs(ty):
    """operator-pair coverage: root production x child position x child production, canonical leaves
    rotated so that neighbouring programs differ"""
    rot = itertools.count()
    def pick(c):
        ls = leaves(c, full=False)
        return ls[next(rot) % len(ls)]
    for tag, cts, build in productions(ty):
        for pos, ct in enumerate(cts):
            for ctag, ccts, cbuild in productions(child_type(ct)):
                if not ccts:
                    continue
                inner = cbuild(*[pick(c) for c in ccts])
                kids = [inner if i == pos else pick(c) for i, c in enumerate(cts)]
                yield build(*kids)


def rand_expr(rng, ty, depth, locals_=None):
    """random expression of type ty; locals_: {type: [names]} of assigned variables in scope"""
    cands = list(leaves(ty))
    if locals_ and locals_.get(ty):
        cands += [('local', n) for n in locals_[ty]] * 2
    prods = productions(child_type(ty))
    if depth <= 0 or not prods or rng.random() < 0.15:
        return rng.choice(cands)
    tag, cts, build = rng.choice(prods)
    return build(*[rand_expr(rng, c, depth - 1 - (rng.random() < 0.3), locals_) for c in cts])


# ----------------------------------------------------------------------------- statements
class StmtGen:
    """random well-typed statement lists for value bindings (and, with effects=True, callbacks)"""
    def __init__(self, rng, effects=False, params=None):
        self.rng, self.n, self.effects = rng, 0, effects
        self.params = params or {}

    def expr(self, ty, scope, depth=2):
        loc = {}
        for n, (t, kind, asg) in scope.items():
            if asg:
                loc.setdefault(t, []).append(n)
        return rand_expr(self.rng, ty, self.rng.choice([0, 1, depth]), loc)

    def fresh(self):
        self.n += 1
        return f'v{self.n}'

    def effect(self, scope):
        rng = self.rng
        k = rng.choice(['set', 'set', 'call', 'call', 'log'])
        recv = rng.choice([('obj', 'a'), ('obj', 'b'), ('obj', 'b'), P('a', 'next'), ('this',)])
        if k == 'set':
            ty = rng.choice(TYPES + ['enum:Mode', 'ptr:VNode'])
            return ('setprop', recv, TARGET[ty], self.expr(ty, scope))
        if k == 'call':
            m = rng.choice(['poke', 'reset', 'note', 'twice', 'link'])
            args = {'poke': ['int'], 'reset': [], 'note': ['QString', 'double'], 'twice': ['int'], 'link': ['ptr:VNode']}[m]
            return ('callm', recv, m, [self.expr(t, scope) for t in args])
        lv = rng.choice(['log', 'debug', 'info', 'warn', 'error'])
        return ('log', lv, [self.expr(rng.choice(TYPES), scope, 1) for _ in range(rng.choice([1, 2, 3]))])

    def stmts(self, ty, scope, depth, tail, in_switch=False, no_let=False):
        """ty: value type of the binding (None for callbacks); tail: must end with a value on fall-out"""
        rng = self.rng
        out = []
        scope = dict(scope)
        for _ in range(rng.choice([0, 1, 1, 2, 3] if depth > 0 else [0, 1, 1])):
            k = rng.choice(['let', 'let', 'assign', 'if', 'ifret', 'switch', 'block'] + (['effect'] * 4 if self.effects else []))
            if k == 'let' and no_let:
                k = 'assign'
            if k == 'let':
                t = rng.choice(TYPES + ['ptr:VNode', 'enum:Mode'])
                name = self.fresh()
                form = rng.choice(['init', 'annot', 'const', 'noinit'])
                if form == 'noinit':
                    out.append(('let', 'let', name, t, None))
                    scope[name] = (t, 'let', False)
                else:
                    e = self.expr(t, scope)
                    ann = t if (form == 'annot' or t == 'uint' or (e[0] == 'lit' and e[1] == 'null')) else None
                    kind = 'const' if form == 'const' else 'let'
                    out.append(('let', kind, name, ann, e))
                    scope[name] = (t, kind, True)
            elif k == 'assign':
                cands = [n for n, v in scope.items() if v[1] == 'let' and n not in self.params]
                if cands:
                    n = rng.choice(cands)
                    t = scope[n][0]
                    out.append(('assign', n, self.expr(t, scope)))
                    scope[n] = (t, 'let', True)
            elif k == 'effect':
                out.append(self.effect(scope))
            elif k == 'block' and depth > 0:
                out.append(('block', self.stmts(ty, scope, depth - 1, False, in_switch)))
            elif k in ('if', 'ifret') and depth > 0:
                c = self.expr('bool', scope)
                a = self.stmts(ty, scope, depth - 1, False, in_switch)
                if k == 'ifret':
                    a.append(('return', self.expr(ty, scope) if ty else None))
                elif in_switch and rng.random() < 0.3:
                    a.append(('break',))
                b = self.stmts(ty, scope, depth - 1, False, in_switch) if rng.random() < 0.5 else None
                out.append(('if', c, a, b))
            elif k == 'switch' and depth > 0:
                dty = rng.choice(['int', 'int', 'uint', 'QString', 'enum:Mode'])
                pool = {'int': [lit('int', v) for v in (0, 1, 2, 3, 5)] + [P('b', 'ival')],
                        'uint': [lit('int', v) for v in (0, 1, 2, 7)],
                        'QString': [lit('QString', v) for v in ('', 'q', 'x', 'yy')] + [P('b', 'sval')],
                        'enum:Mode': [('enum', 'Mode', v) for v in ('ModeA', 'ModeB', 'ModeC', 'ModeD')]}[dty]
                vals = rng.sample(pool, rng.choice([1, 2, 3]))
                cases = []
                for v in vals:
                    body = self.stmts(ty, scope, depth - 1, False, True, no_let=True)   # clause-level declarations: see scoping corpus
                    r = rng.random()
                    if r < 0.4:
                        body.append(('break',))
                    elif r < 0.6:
                        body.append(('return', self.expr(ty, scope) if ty else None))
                    cases.append((v, body))
                if rng.random() < 0.7:
                    body = self.stmts(ty, scope, depth - 1, False, True, no_let=True)
                    if rng.random() < 0.5:
                        body.append(('break',))
                    cases.insert(rng.randrange(len(cases) + 1), (None, body))
                out.append(('switch', self.expr(dty, scope), cases))
        if tail:
            if ty is None:
                if rng.random() < 0.3:
                    out.append(('return', None))
            elif rng.random() < 0.6:
                out.append(('return', self.expr(ty, scope)))
            else:
                out.append(('expr', self.expr(ty, scope)))
        return out


# ----------------------------------------------------------------------------- control-flow skeletons
def bit(k):
    return ('assign', 'r', ('bin', '|', ('local', 'r'), lit('int', 1 << k)))


def switch_skeletons(max_cases=3, discr=None):
    """all switches with 1..max_cases cases, every default position (or none), every combination of body
    terminators in {fall-through, break, return}; bodies tag the accumulator r with a distinct bit."""
    discr = discr or P('a', 'ival')
    for ncase in range(1, max_cases + 1):
        for dpos in [None] + list(range(ncase + 1)):
            nbody = ncase + (dpos is not None)
            for terms in itertools.product(('fall', 'break', 'return'), repeat=nbody):
                cases, ci = [], 0
                for bi in range(nbody):
                    body = [bit(bi)]
                    if terms[bi] == 'break':
                        body.append(('break',))
                    elif terms[bi] == 'return':
                        body.append(('return', ('local', 'r')))
                    if dpos is not None and bi == dpos:
                        cases.append((None, body))
                    else:
                        cases.append((lit('int', ci + 1), body))
                        ci += 1
                yield [('let', 'let', 'r', None, lit('int', 0)), ('switch', discr, cases),
                       ('assign', 'r', ('bin', '|', ('local', 'r'), lit('int', 256))), ('return', ('local', 'r'))]


CONDS = [P('a', 'flag'), P('b', 'flag'), ('bin', '>', P('a', 'ival'), lit('int', 2)), ('bin', '==', P('b', 'sval'), lit('QString', 'q'))]


def nestings(depth):
    """all nestings up to `depth` of the branching constructs, in condition and body positions.
    Yields statement lists for an int-valued binding using accumulator r."""
    kinds = ['tern', 'and', 'or', 'if', 'ifelse', 'switch', 'ifret', 'condbreak']
    ctr = itertools.count()

    def cond(seq):
        """a bool expression realising the remaining expression-level constructs of seq"""
        c = CONDS[next(ctr) % len(CONDS)]
        for kd in seq:
            o = CONDS[next(ctr) % len(CONDS)]
            if kd == 'tern':
                c = ('tern', c, o, ('un', '!', o))
            elif kd == 'and':
                c = ('bin', '&&', c, o)
            elif kd == 'or':
                c = ('bin', '||', o, c)
        return c

    def build(seq, k, in_switch):
        """statement list realising seq (outermost first)"""
        if not seq:
            return [bit(k % 8)]
        kd, rest = seq[0], seq[1:]
        if kd in ('tern', 'and', 'or'):
            # expression-level constructs sit in the condition of an if
            n = 1
            while n < len(seq) and seq[n] in ('tern', 'and', 'or'):
                n += 1
            return [('if', cond(seq[:n]), build(seq[n:], k + 1, in_switch), None)]
        if kd == 'if':
            return [('if', cond([]), build(rest, k + 1, in_switch), None), bit((k + 4) % 8)]
        if kd == 'ifelse':
            return [('if', cond([]), build(rest, k + 1, in_switch), [bit((k + 2) % 8)] + build(rest, k + 3, in_switch))]
        if kd == 'ifret':
            return [('if', cond([]), build(rest, k + 1, in_switch) + [('return', ('local', 'r'))], None), bit((k + 4) % 8)]
        if kd == 'condbreak':
            if not in_switch:
                return [('switch', P('b', 'ival'), [(lit('int', 1), [('if', cond([]), build(rest, k + 1, True) + [('break',)], None), bit((k + 5) % 8)]),
                                                    (None, [bit((k + 6) % 8)])])]
            return [('if', cond([]), build(rest, k + 1, True) + [('break',)], None), bit((k + 5) % 8)]
        if kd == 'switch':
            return [('switch', P('a', 'ival'), [(lit('int', 1), build(rest, k + 1, True)),
                                                (None, [bit((k + 2) % 8), ('break',)]),
                                                (lit('int', 2), build(rest, k + 3, True) + [('break',)])]), bit((k + 7) % 8)]
        raise ValueError(kd)

    for d in range(1, depth + 1):
        for seq in itertools.product(kinds, repeat=d):
            body = build(list(seq), 0, False)
            for tail in ('return', 'expr'):
                yield [('let', 'let', 'r', None, lit('int', 0))] + body + [('return', ('local', 'r')) if tail == 'return' else ('expr', ('local', 'r'))]


def callback_tail_shapes():
    """callback bodies whose last statement is a declaration/assignment after a branching construct (F1 shape)"""
    eff = lambda o, m: ('callm', ('obj', o), m, [])
    heads = [
        ('if', P('a', 'flag'), [eff('a', 'reset')], [eff('b', 'reset')]),
        ('if', P('a', 'flag'), [eff('a', 'reset')], None),
        ('switch', P('a', 'ival'), [(lit('int', 1), [eff('a', 'reset'), ('break',)]), (None, [eff('b', 'reset')])]),
        ('switch', P('a', 'ival'), [(lit('int', 1), [eff('a', 'reset')]), (lit('int', 2), [eff('b', 'reset'), ('break',)])]),
        ('if', P('a', 'flag'), [('if', P('b', 'flag'), [eff('a', 'reset')], [eff('b', 'reset')])], [eff('b', 'reset')]),
        ('if', ('bin', '&&', P('a', 'flag'), P('b', 'flag')), [eff('a', 'reset')], [('return', None)]),
    ]
    tails = [
        [('let', 'let', 'x', None, ('bin', '+', P('a', 'ival'), lit('int', 1)))],
        [('let', 'let', 'x', 'int', None)],
        [('let', 'let', 'x', None, lit('int', 1)), ('assign', 'x', P('b', 'ival'))],
        [('block', [('let', 'const', 'x', None, P('a', 'sval'))])],
        [],
        [eff('a', 'reset'), ('let', 'let', 'x', None, P('a', 'ival'))],
    ]
    for h in heads:
        for t in tails:
            yield [h] + t
            yield [('let', 'let', 'y', None, P('b', 'ival')), h] + t


def void_ternary_bodies():
    """callback bodies with a conditional EXPRESSION whose arms are void (calls, property writes, assignments), used as a
    statement: alone, nested, first / last among other statements, inside if / switch / block"""
    eff = lambda o, m, *a: ('callm', ('obj', o), m, list(a))
    arms = [eff('a', 'reset'), eff('b', 'poke', lit('int', 1)), ('setprop', ('obj', 'a'), 'ival', ('bin', '+', P('b', 'ival'), lit('int', 1))),
            ('log', 'log', [P('a', 'sval')])]
    conds = [P('b', 'flag'), ('bin', '&&', P('b', 'flag'), P('c', 'flag')), ('bin', '<', P('c', 'ival'), lit('int', 3))]
    base = []
    for c in conds:
        for i, x in enumerate(arms):
            for j, y in enumerate(arms):
                if i != j:
                    base.append(('ternstmt', c, x, y))
    nested = [('ternstmt', conds[0], ('ternstmt', conds[2], arms[0], arms[1]), arms[2]),
              ('ternstmt', conds[0], arms[3], ('ternstmt', conds[1], arms[1], arms[0])),
              ('ternstmt', conds[1], ('ternstmt', conds[0], arms[0], arms[1]), ('ternstmt', conds[2], arms[2], arms[3]))]
    for t in base + nested:
        yield [t]
    for t in base[::5] + nested:
        yield [eff('c', 'reset'), t]
        yield [t, eff('c', 'reset')]
        yield [t, ('let', 'let', 'x', None, P('a', 'ival'))]
        yield [('if', P('a', 'flag'), [t], None), eff('c', 'reset')]
        yield [('if', P('a', 'flag'), [eff('c', 'reset')], [t])]
        yield [('switch', P('a', 'ival'), [(lit('int', 1), [t, ('break',)]), (None, [eff('c', 'reset')])])]
        yield [('block', [t]), t]
        yield [('let', 'let', 'x', None, lit('int', 0)), ('ternstmt', conds[0], ('assign', 'x', P('a', 'ival')), ('assign', 'x', P('b', 'ival'))), ('setprop', ('obj', 'c'), 'ival', ('local', 'x'))]


def tails_after_skeletons(depth):
    """callback bodies: every switch skeleton / nesting used as the head, followed by a declaration-only tail.
    Inner `return r` becomes `return;`; the accumulator stays as an ordinary local."""
    tails = [[('let', 'let', 'x', None, ('bin', '+', P('a', 'ival'), lit('int', 1)))],
             [('let', 'let', 'x', 'int', None)],
             [('block', [('let', 'const', 'x', None, P('a', 'sval'))])]]

    def conv(ss):
        out = []
        for s in ss:
            if s[0] == 'return':
                out.append(('return', None))
            elif s[0] == 'if':
                out.append(('if', s[1], conv(s[2]), conv(s[3]) if s[3] is not None else None))
            elif s[0] == 'switch':
                out.append(('switch', s[1], [(c, conv(b)) for c, b in s[2]]))
            elif s[0] == 'block':
                out.append(('block', conv(s[1])))
            else:
                out.append(s)
        return out
    k = 0
    for ss in itertools.chain(switch_skeletons(), nestings(depth)):
        body = conv(ss)
        # drop the final `return;` / trailing `r;` of the value skeleton
        while body and body[-1][0] in ('return', 'expr'):
            body.pop()
        yield body + tails[k % len(tails)]
        k += 1


def switch_branching_labels():
    """switches whose case labels are themselves branching expressions (ternary / && / ||) in every position,
    with literal and property labels around them; all default positions; bodies tag r and break"""
    I = lambda v: lit('int', v)
    int_labels = [I(1), ('tern', P('b', 'flag'), I(2), I(3)), P('b', 'ival'), ('tern', ('bin', '&&', P('a', 'flag'), P('c', 'flag')), I(5), P('c', 'ival'))]
    bool_labels = [('bin', '&&', P('b', 'flag'), P('c', 'flag')), ('bin', '||', P('b', 'flag'), P('c', 'flag')), lit('bool', True), ('tern', P('b', 'flag'), P('c', 'flag'), lit('bool', False))]
    for discr, labels in ((P('a', 'ival'), int_labels), (P('a', 'flag'), bool_labels)):
        for n in (2, 3):
            for combo in itertools.product(range(len(labels)), repeat=n):
                if all(labels[k][0] in ('lit', 'prop') for k in combo):
                    continue        # covered by switch_skeletons
                for dpos in (None, 0, n):
                    cases = []
                    for bi, k in enumerate(combo):
                        cases.append((labels[k], [bit(bi), ('break',)] if bi % 2 == 0 else [bit(bi)]))
                    if dpos is not None:
                        cases.insert(dpos, (None, [bit(6), ('break',)]))
                    yield [('let', 'let', 'r', None, I(0)), ('switch', discr, cases), ('return', ('local', 'r'))]


def completion_value_programs(depth):
    """value = completion value of the LAST executed expression statement: every switch skeleton / nesting with its
    accumulator updates replaced by statement-free expression statements (string literals, a local), fall-through
    included; the construct is the last statement, or is followed by one more expression statement"""
    S = lambda k: ('expr', lit('QString', f'v{k}'))

    def conv(ss, n):
        out = []
        for s in ss:
            if s[0] == 'assign' and s[1] == 'r':
                n[0] += 1
                out.append(S(n[0]) if n[0] % 4 else ('expr', ('local', 'w')))
            elif s[0] == 'return':
                out.append(('return', lit('QString', 'ret')))
            elif s[0] == 'if':
                out.append(('if', s[1], conv(s[2], n), conv(s[3], n) if s[3] is not None else None))
            elif s[0] == 'switch':
                out.append(('switch', s[1], [(c, conv(b, n)) for c, b in s[2]]))
            elif s[0] == 'block':
                out.append(('block', conv(s[1], n)))
            elif s[0] == 'let' and s[2] == 'r':
                out.append(('let', 'let', 'w', None, P('b', 'sval')))
            else:
                out.append(s)
        return out
    k = 0
    for ss in itertools.chain(switch_skeletons(), nestings(depth)):
        body = conv(ss, [0])
        while body and body[-1][0] in ('return', 'expr'):
            body.pop()
        k += 1
        # a leading value so that every path has a completion value even if no clause runs
        yield [body[0], ('expr', lit('QString', 'first'))] + body[1:] + ([('expr', lit('QString', 'end'))] if k % 3 == 0 else [])


def dynamic_then_constant_tail():
    """early return of a run-time value, constant afterwards: the binding is NOT a constant"""
    out = []
    tails = [lambda v: [('expr', v)], lambda v: [('return', v)]]
    for ty, dyn, const in (('QString', P('a', 'sval'), lit('QString', '(none)')), ('int', P('a', 'ival'), lit('int', 7)), ('bool', P('a', 'flag'), lit('bool', False)),
                           ('double', P('a', 'dval'), lit('double', 1.5)), ('ptr:VNode', P('a', 'next'), lit('null', None))):
        for t in tails:
            out.append((ty, [('if', P('b', 'flag'), [('return', dyn)], None)] + t(const)))
            out.append((ty, [('if', P('b', 'flag'), [('return', dyn)], [('return', const)])]))
            out.append((ty, [('if', P('b', 'flag'), [('return', const)], None)] + t(dyn)))
            out.append((ty, [('switch', P('b', 'ival'), [(lit('int', 1), [('return', dyn)]), (None, [('break',)])])] + t(const)))
            out.append((ty, [('switch', P('b', 'ival'), [(lit('int', 1), [('return', const)]), (lit('int', 2), [('return', dyn)])])] + t(const)))
            out.append((ty, [('if', P('b', 'flag'), [('if', P('c', 'flag'), [('return', dyn)], None)], None)] + t(const)))
            out.append((ty, [('let', 'let', 'k', None, const), ('if', P('b', 'flag'), [('return', dyn)], None)] + t(('local', 'k'))))
    return out


def rich_switch_tails(sample, off):
    """callbacks: switch with <= 2 cases + default (every position); each clause body is simple / contains a ternary
    assignment / contains an if-else join, and leaves by fall-through / break / return; declaration-only tail"""
    I = lambda v: lit('int', v)
    def body(kind, k):
        if kind == 's':
            return [bit(k)]
        if kind == 't':
            return [('assign', 'r', ('tern', P('b', 'flag'), I(1 << k), ('local', 'r')))]
        return [('if', P('c', 'flag'), [bit(k)], [bit(k + 3)])]
    n = 0
    for ncase in (1, 2):
        nb = ncase + 1
        for dpos in range(ncase + 1):
            for kinds in itertools.product('sti', repeat=nb):
                for terms in itertools.product(('fall', 'break', 'return'), repeat=nb):
                    n += 1
                    if n % sample != off:
                        continue
                    cases, ci = [], 0
                    for bi in range(nb):
                        b = body(kinds[bi], bi)
                        if terms[bi] == 'break':
                            b = b + [('break',)]
                        elif terms[bi] == 'return':
                            b = b + [('return', None)]
                        if bi == dpos:
                            cases.append((None, b))
                        else:
                            cases.append((I(ci + 1), b))
                            ci += 1
                    yield [('let', 'let', 'r', None, I(0)), ('switch', P('a', 'ival'), cases), ('let', 'let', 'x', None, ('bin', '+', P('a', 'ival'), I(1)))]
