"""Reference semantics of the source language (docs/language.md: C-like typing, integer division,
short-circuit && ||, ternary, if/else, switch with fall-through and break, let/const block scoping,
return, completion value of a trailing expression statement), encoded as z3 terms over a symbolic
object store.  Independent of the implementation: it works on the generator's AST, never on qmluic's IR.

Every evaluation yields (value, defined): `defined` is false on 32-bit signed overflow, / % by zero or
INT_MIN/-1, bad shift count, out-of-range double->int cast, null dereference, subscript out of range, read
of a never-assigned variable (tracked separately as `vok`).
"""
import z3
from . import lang as L
from .sem import (ListVal, Prims, bv, fresh, ite, sort_of, TRUE, FALSE, MAXL, INT, STR)


class Store:
    """symbolic object store: (object id, property) -> value; pointer values are Int (0 = null)"""
    def __init__(self, env, tag=''):
        self.env, self.tag = env, tag
        self.ids = list(env.objects)
        self.oid = {o: i + 1 for i, o in enumerate(self.ids)}
        self.vals = {}
        self.base = self     # the store whose fresh constants are the symbolic inputs

    def copy(self):
        s = Store.__new__(Store)
        s.env, s.tag, s.ids, s.oid, s.base = self.env, self.tag, self.ids, self.oid, self.base
        s.vals = dict(self.vals)
        return s

    def get(self, obj, prop):
        k = (obj, prop)
        if k not in self.vals:
            if k not in self.base.vals:
                p = self.env.cls(self.env.objects[obj]).prop(prop)
                self.base.vals[k] = fresh(f'{self.tag}{obj}.{prop}', p.ty)
            self.vals[k] = self.base.vals[k]
        return self.vals[k]

    def universe(self):
        """objects a symbolic pointer may designate (modelling bound): the base objects and the owner of the
        program under analysis -- not the other programs' target objects batched into the same document"""
        u = getattr(self.env, 'universe', None)
        return [o for o in self.ids if u is None or o in u]

    def holders(self, prop):
        return [o for o in self.universe() if self.env.cls(self.env.objects[o]).prop(prop) is not None]

    def read(self, ptr, prop):
        if z3.is_int_value(ptr):
            o = self.ids[ptr.as_long() - 1] if 1 <= ptr.as_long() <= len(self.ids) else None
            if o is not None and self.env.cls(self.env.objects[o]).prop(prop) is not None:
                return self.get(o, prop)
        hs = self.holders(prop)
        v = self.get(hs[-1], prop)
        for o in reversed(hs[:-1]):
            v = ite(ptr == self.oid[o], self.get(o, prop), v)
        return v

    def write(self, ptr, prop, value):
        if z3.is_int_value(ptr) and 1 <= ptr.as_long() <= len(self.ids):
            o = self.ids[ptr.as_long() - 1]
            if self.env.cls(self.env.objects[o]).prop(prop) is not None:
                self.vals[(o, prop)] = value
                return
        for o in self.holders(prop):
            self.vals[(o, prop)] = ite(ptr == self.oid[o], value, self.get(o, prop))

    def valid_ptr(self, ptr, prop):
        """ptr designates an object that has the property"""
        if z3.is_int_value(ptr):
            o = self.ids[ptr.as_long() - 1] if 1 <= ptr.as_long() <= len(self.ids) else None
            return TRUE if (o is not None and self.env.cls(self.env.objects[o]).prop(prop) is not None) else FALSE
        return z3.Or([ptr == self.oid[o] for o in self.holders(prop)])

    def wf(self):
        """well-formedness of the symbolic inputs created so far"""
        cs = []
        for (o, p), v in self.base.vals.items():
            pd = self.env.cls(self.env.objects[o]).prop(p)
            if pd.ty.startswith('ptr:'):
                ok = [v == 0] + [v == self.oid[x] for x in self.universe() if self.env.cls(self.env.objects[x]).derives_from(pd.ty[4:])]
                cs.append(z3.Or(ok))
            elif pd.ty == 'QStringList':
                cs.append(v.wf())
            elif pd.ty.startswith('enum:'):
                # values an object of the (unscoped) C++ enum type can hold: the bit range of its enumerators
                from .env import ENUMS
                mx = max(x for _, x in ENUMS[pd.ty[5:]])
                cs.append(z3.ULE(v, z3.BitVecVal((1 << mx.bit_length()) - 1, 32)))
        return cs

    @staticmethod
    def merge(c, a, b):
        s = a.copy()
        for k in set(a.vals) | set(b.vals):
            va, vb = a.get(*k), b.get(*k)
            s.vals[k] = va if va is vb else ite(c, va, vb)
        return s


class Path:
    def __init__(self, pc, d, vok, store, lenv, effects, cv):
        self.pc, self.d, self.vok, self.store, self.lenv, self.effects, self.cv = pc, d, vok, store, lenv, effects, cv

    def fork(self, extra_pc=None):
        return Path(self.pc if extra_pc is None else z3.And(self.pc, extra_pc), self.d, self.vok, self.store.copy(),
                    {k: list(v) for k, v in self.lenv.items()}, list(self.effects), self.cv)


class Ref:
    def __init__(self, env, prims, store):
        self.env, self.P, self.store0 = env, prims, store
        self.uid = 0

    # ------------------------------------------------------------------------------------ expressions
    def ev(self, e, p, sc, want=None):
        """-> (value, type); accumulates definedness into p.d / p.vok.  `want` gives untyped constants
        their concrete type."""
        P = self.P
        k = e[0]
        t = L.typeof(e, self.env, sc)
        if k == 'rawlit':
            e = ('lit', e[1], e[3])
            k = 'lit'
        if k == 'lit':
            ty, v = e[1], e[2]
            if ty == 'int':
                ct = want if want in ('int', 'uint', 'double') else 'int'
                if ct == 'double':
                    return z3.FPVal(float(v), sort_of('double')), 'double'
                return bv(v), ct
            if ty == 'bool':
                return z3.BoolVal(v), 'bool'
            if ty == 'double':
                return z3.FPVal(float(v), sort_of('double')), 'double'
            if ty == 'QString':
                return z3.StringVal(v), 'QString'
            if ty == 'null':
                return z3.IntVal(0), want if want and want.startswith('ptr:') else 'ptr:VNode'
        if k == 'obj':
            return z3.IntVal(p.store.oid[e[1]]), t
        if k == 'this':
            return z3.IntVal(p.store.oid[self.env.this]), t
        if k == 'local':
            val, asg, ty, _ = p.lenv[sc.vars[e[1]][2]]
            p.vok = z3.And(p.vok, asg)
            return val, ty
        if k in ('prop', 'iprop'):
            if k == 'prop':
                o, _ = self.ev(e[1], p, sc)
                name = e[2]
            else:
                o, name = z3.IntVal(p.store.oid[self.env.this]), e[1]
            p.d = z3.And(p.d, p.store.valid_ptr(o, name))     # null dereference is undefined
            return p.store.read(o, name), t
        if k == 'enum':
            from .env import ENUMS
            return bv(dict(ENUMS[e[1]])[e[2]]), t
        if k == 'tr':
            return P.tr(z3.StringVal(e[1])), 'QString'
        if k == 'arr':
            et = t[5:] if t.startswith('list:') else 'QString'
            vals = [self.ev(x, p, sc, et)[0] for x in e[1]]
            return ListVal(z3.IntVal(len(vals)), vals), (t if vals else 'cempty')
        ct = L.conc(t)
        if k == 'cast':
            if e[2] == 'void':
                self.ev(e[1], p, sc)
                return None, 'void'
            v, s = self.ev(e[1], p, sc, e[2] if e[2] in ('int', 'uint') else None)
            if s.startswith('ptr:'):
                return v, e[2]
            r, ub = P.cast(v, s, e[2])
            p.d = z3.And(p.d, z3.Not(ub))
            return r, e[2]
        if k == 'un':
            op = e[1]
            v, s = self.ev(e[2], p, sc, want)
            if op == '!':
                return z3.Not(v), 'bool'
            if op == '+':
                return v, s
            if op == '~':
                return ~v, s
            if s == 'double':
                return z3.fpNeg(v), s
            r, ub = P.ineg(s == 'int', v)
            p.d = z3.And(p.d, z3.Not(ub))
            return r, s
        if k == 'tern':
            c, _ = self.ev(e[1], p, sc)
            rt = ct if want is None or t not in ('cint',) else want
            pa, pb = p.fork(), p.fork()
            a, _ = self.ev(e[2], pa, sc, rt)
            b, _ = self.ev(e[3], pb, sc, rt)
            p.d = z3.And(p.d, z3.If(c, pa.d, pb.d))
            p.vok = z3.And(p.vok, z3.If(c, pa.vok, pb.vok))
            return ite(c, a, b), rt
        if k == 'bin':
            op = e[1]
            if op in ('&&', '||'):
                l, _ = self.ev(e[2], p, sc)
                pr = p.fork()
                r, _ = self.ev(e[3], pr, sc)
                taken = l if op == '&&' else z3.Not(l)      # right operand evaluated only then
                p.d = z3.And(p.d, z3.Implies(taken, pr.d))
                p.vok = z3.And(p.vok, z3.Implies(taken, pr.vok))
                return (z3.And(l, r) if op == '&&' else z3.Or(l, r)), 'bool'
            lt, rt = L.typeof(e[2], self.env, sc), L.typeof(e[3], self.env, sc)
            if op in ('<<', '>>'):
                # the result has the (concrete) type of the left operand; the count keeps its own type
                lty = L.conc(lt) if not (lt == 'cint' and want in ('int', 'uint')) else want
                if lt == 'cint' and rt == 'cint':
                    lty = want if want in ('int', 'uint') else 'int'
                l, _ = self.ev(e[2], p, sc, lty)
                r, rty = self.ev(e[3], p, sc, 'int' if rt == 'cint' else None)
                v, ub = P.ishift(op, lty == 'int', l, r)
                p.d = z3.And(p.d, z3.Not(ub))
                return v, lty
            ot = L.unify(lt, rt)
            if ot == 'cint':
                ot = want if want in ('int', 'uint', 'double') and op not in ('==', '!=', '<', '<=', '>', '>=') else 'int'
            elif ot == 'cstr':
                ot = 'QString'
            elif ot == 'cnull':
                ot = 'ptr:VNode'
            l, _ = self.ev(e[2], p, sc, ot)
            r, _ = self.ev(e[3], p, sc, ot)
            if op in ('+', '-', '*', '/', '%'):
                if ot == 'double':
                    return P.farith(op, l, r), ot
                if ot == 'QString':
                    return z3.Concat(l, r), ot
                v, ub = P.iarith(op, ot == 'int', l, r)
                p.d = z3.And(p.d, z3.Not(ub))
                return v, ot
            if op in ('&', '|', '^'):
                if ot == 'bool':
                    return P.bbit(op, l, r), ot
                return P.ibit(op, l, r), ot
            # comparisons
            if ot == 'double':
                return P.fcmp(op, l, r), 'bool'
            if ot == 'bool':
                return P.bcmp(op, l, r), 'bool'
            if ot == 'QString':
                return P.scmp(op, l, r), 'bool'
            if ot.startswith('ptr:'):
                if op not in ('==', '!='):
                    raise L.IllTyped('pointer ordering is not generated')
                return (l == r if op == '==' else l != r), 'bool'
            return P.icmp(op, ot != 'uint', l, r), 'bool'
        if k == 'call':
            a, _ = self.ev(e[2], p, sc, ct)
            b, _ = self.ev(e[3], p, sc, ct)
            if ct == 'QString':
                lt = a < b
            elif ct == 'bool':
                lt = z3.And(z3.Not(a), b)
            elif ct == 'double':
                lt = z3.fpLT(a, b)
                # the larger/smaller of two doubles is only pinned down when they are ordered and not +-0
                p.d = z3.And(p.d, z3.Not(z3.fpIsNaN(a)), z3.Not(z3.fpIsNaN(b)), z3.Not(z3.And(z3.fpIsZero(a), z3.fpIsZero(b))))
            else:
                lt = P.icmp('<', ct == 'int', a, b)
            return (ite(lt, b, a) if e[1] == 'max' else ite(lt, a, b)), ct
        if k == 'isEmpty':
            v, s = self.ev(e[1], p, sc, 'QString')
            return (v.len == 0 if isinstance(v, ListVal) else z3.Length(v) == 0), 'bool'
        if k == 'sub':
            lst, _ = self.ev(e[1], p, sc)
            it = L.typeof(e[2], self.env, sc)
            i, ity = self.ev(e[2], p, sc, 'int' if it == 'cint' else None)
            ii = z3.BV2Int(i, ity == 'int')
            p.d = z3.And(p.d, ii >= 0, ii < lst.len)          # "no bounds check": out of range is undefined
            return lst.at(ii), 'QString'
        if k == 'arg':
            s, _ = self.ev(e[1], p, sc, 'QString')
            xt = L.conc(L.typeof(e[2], self.env, sc))
            x, _ = self.ev(e[2], p, sc, xt)
            return P.arg(s, x, xt), 'QString'
        raise ValueError(e)

    # ------------------------------------------------------------------------------------ statements
    def run(self, ss, paths, sc, in_switch=False):
        """paths: list of (Path, kind, retval) with kind normal|return|break.  Executes ss on the normal ones."""
        for s in ss:
            nxt = []
            for (p, kind, rv) in paths:
                if kind != 'normal':
                    nxt.append((p, kind, rv))
                else:
                    nxt += self.step(s, p, sc)
            paths = nxt
        return paths

    def declare(self, p, sc, name, ty, kind, value=None):
        vid = sc.declare(name, ty, kind)
        if value is None:
            p.lenv[vid] = [fresh(f'undef_{vid}', ty), FALSE, ty, kind]
        else:
            p.lenv[vid] = [value, TRUE, ty, kind]

    def step(self, s, p, sc):
        k = s[0]
        env = self.env
        if k == 'let':
            _, kind, name, ann, e = s
            if e is not None:
                et = L.typeof(e, env, sc)
                ty = ann or L.conc(et)
                if ty in ('cnull', 'cempty') or not L.assignable(env, ty, et):
                    raise L.IllTyped(f'let {name}: {ty} = {et}')
                v, _ = self.ev(e, p, sc, ty)
                self.declare(p, sc, name, ty, kind, v)
            else:
                if ann is None or kind == 'const':
                    raise L.IllTyped('declaration needs annotation or initialiser')
                self.declare(p, sc, name, ann, kind)
            p.cv = None
            return [(p, 'normal', None)]
        if k == 'assign':
            if s[1] not in sc.vars or sc.vars[s[1]][1] == 'const':
                raise L.IllTyped('assignment to const/undeclared')
            ty = sc.vars[s[1]][0]
            if not L.assignable(env, ty, L.typeof(s[2], env, sc)):
                raise L.IllTyped('assign')
            v, _ = self.ev(s[2], p, sc, ty)
            vid = sc.vars[s[1]][2]
            p.lenv[vid] = [v, TRUE, ty, p.lenv[vid][3]]
            p.cv = None
            return [(p, 'normal', None)]
        if k == 'expr':
            v, ty = self.ev(s[1], p, sc)
            p.cv = (v, L.conc(ty), s[1], L.typeof(s[1], env, sc))
            return [(p, 'normal', None)]
        if k == 'return':
            if s[1] is None:
                return [(p, 'return', None)]
            v, ty = self.ev(s[1], p, sc)
            return [(p, 'return', (v, L.conc(ty), s[1], L.typeof(s[1], env, sc)))]
        if k == 'break':
            return [(p, 'break', None)]
        if k == 'block':
            return self.scoped(self.run(s[1], [(p, 'normal', None)], sc.child()), p)
        if k == 'if':
            if L.typeof(s[1], env, sc) != 'bool':
                raise L.IllTyped('condition must be bool')
            c, _ = self.ev(s[1], p, sc)
            pt, pf = p.fork(c), p.fork(z3.Not(c))
            pt.cv = pf.cv = None
            outs = self.scoped(self.run(s[2], [(pt, 'normal', None)], sc.child()), p)
            if s[3] is not None:
                outs += self.scoped(self.run(s[3], [(pf, 'normal', None)], sc.child()), p)
            else:
                outs.append((pf, 'normal', None))
            return outs
        if k == 'ternstmt':
            # `c ? A : B;` with void arms: exactly one arm is executed (docs: conditional expression); no new scope
            if L.typeof(s[1], env, sc) != 'bool':
                raise L.IllTyped('condition must be bool')
            c, _ = self.ev(s[1], p, sc)
            pt, pf = p.fork(c), p.fork(z3.Not(c))
            outs = self.run([s[2]], [(pt, 'normal', None)], sc) + self.run([s[3]], [(pf, 'normal', None)], sc)
            for (q, _, _) in outs:
                q.cv = None
            return outs
        if k == 'switch':
            dv, dt = self.ev(s[1], p, sc)
            cases = s[2]
            ssc = sc.child()        # the switch body is one block scope shared by all clauses
            outs = []
            cur = p                 # path on which no earlier case matched
            cur.cv = None
            entries = []            # (index, path entering the body there)
            for i, (ce, _) in enumerate(cases):
                if ce is None:
                    continue
                ct = L.unify(dt, L.typeof(ce, env, sc))
                cv_, _ = self.ev(ce, cur, sc, L.conc(ct))
                if L.conc(ct) == 'double':
                    eq = self.P.fcmp('==', dv, cv_)
                else:
                    eq = dv == cv_
                entries.append((i, cur.fork(eq)))
                cur = cur.fork(z3.Not(eq))
            dpos = [i for i, (ce, _) in enumerate(cases) if ce is None]
            if dpos:
                entries.append((dpos[0], cur))
            else:
                outs.append((cur, 'normal', None))
            for i, pe in entries:
                body = [x for _, b in cases[i:] for x in b]
                # declarations of clauses that are jumped over exist (block scope) but are unassigned
                pre = [x for _, b in cases[:i] for x in b]
                sc_i = ssc.child()
                self.hoist(pre, pe, sc_i)
                for (q, kind, rv) in self.run(body, [(pe, 'normal', None)], sc_i):
                    outs.append((q, 'normal' if kind == 'break' else kind, rv))
            return self.scoped(outs, p)
        if k == 'setprop':
            o, ot = self.ev(s[1], p, sc)
            pd = env.cls(ot[4:]).prop(s[2])
            if pd is None or not pd.write or not L.assignable(env, pd.ty, L.typeof(s[3], env, sc)):
                raise L.IllTyped('property assignment')
            v, _ = self.ev(s[3], p, sc, pd.ty)     # right-hand side first? order is unobservable: reads are pure
            p.d = z3.And(p.d, p.store.valid_ptr(o, s[2]))
            p.effects.append(('set', o, s[2], [(v, pd.ty)]))
            p.store.write(o, s[2], v)
            p.cv = None
            return [(p, 'normal', None)]
        if k == 'callm':
            o, ot = self.ev(s[1], p, sc)
            cands = [m for m in env.cls(ot[4:]).callables_named(s[2]) if len(m.args) == len(s[3])]
            m = None
            for c in cands:
                if all(L.assignable(env, at, L.typeof(a, env, sc)) for at, a in zip(c.args, s[3])):
                    m = c
                    break
            if m is None:
                raise L.IllTyped('no matching method')
            args = [(self.ev(a, p, sc, at)[0], at) for a, at in zip(s[3], m.args)]
            p.d = z3.And(p.d, o != 0)
            p.effects.append(('call', o, s[2], args))
            p.cv = None
            return [(p, 'normal', None)]
        if k == 'log':
            args = []
            for a in s[2]:
                at = L.conc(L.typeof(a, env, sc))
                args.append((self.ev(a, p, sc, at)[0], at))
            # console.log and console.debug both go to the debug stream (Qt's own mapping)
            p.effects.append(('log', None, {'log': 'debug'}.get(s[1], s[1]), args))
            p.cv = None
            return [(p, 'normal', None)]
        raise ValueError(s)

    def hoist(self, stmts, p, sc):
        for s in stmts:
            if s[0] == 'let':
                ty = s[3]
                if ty is None:
                    ty = L.conc(L.typeof(s[4], self.env, sc))
                self.declare(p, sc, s[2], ty, s[1])

    def scoped(self, outs, outer):
        """leaving a block needs no work: variables are keyed by declaration, scopes are lexical"""
        return outs


def initial_path(store):
    return Path(TRUE, TRUE, TRUE, store, {}, [], None)
