"""Runs a corpus through engine B for one property: batching, translation by the real CLI, two-stage decision,
replay of sat models, statistics and evidence."""
import collections, hashlib, json, os, shutil, time, traceback
import z3
from .. import common as C
from . import driver as D, lang as L, cxx, replay as RP, env as E


MAX_REPLAYS = 6


class Suite:
    def __init__(self, res, workdir_name):
        self.res = res
        self.qmluic = C.build_native()
        self.work = os.path.join(C.CACHE, 'tv', '%s-%d' % (workdir_name, os.getpid()))
        shutil.rmtree(self.work, ignore_errors=True)
        os.makedirs(self.work)
        self.stats = collections.Counter()
        self.stats['solver_s'] = 0.0
        self.samples = []
        self.undecided = []
        self.rejected = collections.Counter()
        self.unexpected_rejections = []
        self.by_tag = collections.Counter()
        self.seen = set()
        self.nviol = 0
        self.nreplay = 0
        self.paths = 0
        self.witness_fail = 0

    # ------------------------------------------------------------------------------------------------
    def well_typed(self, prog):
        """reference typing (docs/language.md).  Ill-typed programs are outside the value properties."""
        try:
            an = D.Analysis(prog, None, 1, True)
            prog.idx = 0
            an.ref_side()
            return True
        except L.IllTyped:
            return False
        except KeyError:
            return False

    def run(self, programs, query_name, make_query, replay_fn, batch=30, expect_accept=True):
        """decides `make_query` for every accepted program"""
        progs = []
        for p in programs:
            p.idx = 0
            key = hashlib.sha1((p.kind + '|' + str(p.ty) + '|' + p.source()).encode()).hexdigest()
            if key in self.seen:
                self.stats['duplicates'] += 1
                continue
            self.seen.add(key)
            if not self.well_typed(p):
                self.stats['ill_typed_by_reference(skipped)'] += 1
                continue
            progs.append(p)
        for k in range(0, len(progs), batch):
            chunk = progs[k:k + batch]
            doc, cli, rej = D.translate(self.qmluic, self.work, chunk)
            for p, msg in rej:
                self.rejected[msg.strip()[:60]] += 1
                if msg.startswith('PANIC'):
                    # a program of the documented subset makes the translator crash: no .ui, no header for the whole file
                    d = C.new_replay_dir(self.res.prop, 'panic-%d' % (len(self.res.violations) + 1))
                    with open(os.path.join(d, 'Doc.qml'), 'w') as f:
                        f.write(D.Doc([p]).text)
                    with open(os.path.join(d, 'README.txt'), 'w') as f:
                        f.write('qmluic generate-ui --foreign-types /repo/contrib/metatypes --foreign-types /verif/data/vnode_metatypes.json Doc.qml\n' + msg + '\n')
                    self.res.violation({'site': 'translator panic', 'message': msg[:80]},
                                       f'the translator panics on a well-typed {p.kind} of the corpus ({msg}):\n{p.source()}', d)
                    continue
                if not msg.startswith(('integer overflow', 'integer conversion')):
                    self.unexpected_rejections.append({'source': p.source(), 'message': msg})
            if doc is None:
                continue
            try:
                hdr = cxx.Header(cli.header)
            except cxx.Unsupported as u:
                self.res.inconc(f'emitted header has a shape the parser does not know: {u}')
                continue
            for p in doc.programs:
                self.one(p, doc, cli, hdr, query_name, make_query, replay_fn)

    def one(self, p, doc, cli, hdr, query_name, make_query, replay_fn):
        st = self.stats
        try:
            v = D.decide(p, hdr, len(doc.programs), make_query, st)
        except cxx.Unsupported as u:
            st['unsupported_shape'] += 1
            self.res.inconc(f'emitted code outside the modelled subset: {u} in\n{p.source()}')
            return
        except L.IllTyped as u:
            st['ill_typed_late'] += 1
            return
        except Exception:
            st['internal_error'] += 1
            self.res.inconc('internal error analysing\n' + p.source() + '\n' + traceback.format_exc()[-1500:])
            return
        if v.status == 'no-function':
            st['folded_to_constant(no function)'] += 1
            return
        st['programs'] += 1
        self.by_tag[p.tag] += 1
        self.paths += len(v.an.impl_results)
        fname = ('eval' if p.kind == 'binding' else 'on') + p.suffix()
        if v.status == 'unsat':
            every = 40 if C.tier() == 'thorough' else 400
            if p.kind == 'binding' and query_name == 'value' and st['programs'] % every == 3:
                self.validate_translator(p, doc, cli, hdr)
            if st['programs'] % 97 == 1 or len(self.samples) < 3:
                if not D.witness(v.an):
                    self.witness_fail += 1
                    self.res.inconc('vacuity witness failed (no emitted path satisfiable) for\n' + p.source())
                st['witnesses_checked'] += 1
                if len(self.samples) < 6:
                    self.samples.append({'qml': p.source(), 'emitted': '\n'.join(hdr.funcs[fname].body), 'query': query_name,
                                         'result': f'unsat (stage {v.stage})', 'emitted_paths': len(v.an.impl_results), 'solver_s': round(v.secs, 4)})
            return
        if v.status == 'unknown':
            st['undecided'] += 1
            st['programs'] -= 1
            self.by_tag[p.tag] -= 1
            self.undecided.append({'qml': p.source(), 'why': v.why})
            return
        # sat in the precise stage: replay before reporting
        st['sat'] += 1
        if self.nreplay >= MAX_REPLAYS:
            st['sat_not_replayed(cap)'] += 1
            return
        self.nreplay += 1
        tag = f'{self.nreplay:03d}'
        d = C.new_replay_dir(self.res.prop, tag)
        try:
            ok, info = replay_fn(self, p, doc, cli, hdr, v, d, make_query)
        except Exception:
            ok, info = None, {'error': traceback.format_exc()[-2000:]}
        info['qml'] = p.source()
        info['emitted'] = '\n'.join(hdr.funcs[fname].body)
        with open(os.path.join(d, 'info.json'), 'w') as f:
            json.dump(info, f, indent=1, default=str)
        if ok:
            key = {'site': info.get('site', 'emitted code'), 'shape': info.get('shape', p.tag)}
            desc = f"{query_name}: {info.get('summary', '')}\n{p.source()}\nmodel: {info.get('model')}\nexpected: {info.get('expected')}\nactual:   {info.get('actual')}"
            self.res.violation(key, desc, d)
            self.nviol += 1
        elif ok is False:
            self.res.inconc(f'sat model did not reproduce natively (encoding error?) for\n{p.source()}\nexpected {info.get("expected")} actual {info.get("actual")} (see {d})')
        else:
            self.res.inconc(f'replay failed for {p.source()[:200]}: {str(info.get("error"))[:600]} (see {d})')
        if len(self.samples) < 12:
            self.samples.append({'qml': p.source(), 'query': query_name, 'result': 'sat', 'replayed': ok, 'model': info.get('model')})

    # ------------------------------------------------------------------------------------------------
    def validate_translator(self, p, doc, cli, hdr):
        """Translator validation: pick a concrete state in which the source is defined (z3 model), compute the reference
        value under it, run the *compiled* emitted function on that state with the mock: the three must agree.
        A disagreement means one of my encoders (or the mock) is wrong -> the run is inconclusive, never a VIOLATION."""
        import tempfile
        def defined_query(an):
            out = []
            for (q, kind, rv) in an.ref_outs:
                x = rv if kind == 'return' else q.cv
                if x is not None and x[0] is not None:
                    out.append(z3.And(q.pc, q.d, q.vok, *[z3.Not(c) for c, _ in an.impl_bad]))
            return out
        d = os.path.join(self.work, 'tval-%d' % self.stats['translator_validations'])
        try:
            v = D.Verdict('sat')
            ok, info = replay_value(self, p, doc, cli, hdr, v, d, defined_query)
        except Exception:
            ok, info = None, {'error': traceback.format_exc()[-800:]}
        self.stats['translator_validations'] += 1
        if ok is False:
            self.stats['translator_validations_agree'] += 1
        elif ok is True:
            self.res.inconc(f'translator validation: compiled header and encodings disagree for\n{p.source()}\nexpected {info.get("expected")} actual {info.get("actual")} model {info.get("model")}')
        else:
            if 'not replayable' in str(info.get('error')) or 'without concrete model' in str(info.get('error')):
                self.stats['translator_validations'] -= 1
            else:
                self.res.inconc(f'translator validation could not run: {str(info.get("error"))[:400]}')
        shutil.rmtree(d, ignore_errors=True)

    def finish(self, extra=None):
        st = self.stats
        cov = self.res.coverage
        cov['programs'] = st['programs']
        cov['disagreements_checked'] = st['sat']
        cov['samples'] = self.samples or [{'note': 'no program was analysed'}]
        cov['queries'] = st['queries']
        cov['solver_s'] = round(st['solver_s'], 2)
        cov['stage1_unsat(abstract UF)'] = st['stage1_unsat']
        cov['stage2_unsat(precise)'] = st['stage2_unsat']
        cov['undecided'] = st['undecided']
        cov['undecided_samples'] = self.undecided[:5]
        cov['emitted_paths_executed'] = self.paths
        cov['vacuity_witnesses_checked'] = st['witnesses_checked']
        cov['translator_validations(compiled header vs encodings on a concrete state)'] = f"{st['translator_validations_agree']}/{st['translator_validations']} agree"
        cov['programs_by_family'] = dict(self.by_tag)
        cov['rejected_by_cli'] = dict(self.rejected)
        cov['unexpected_rejections'] = self.unexpected_rejections[:10]
        cov['other_counts'] = {k: v for k, v in st.items() if k in ('sat_not_replayed(cap)', 'duplicates', 'ill_typed_by_reference(skipped)', 'folded_to_constant(no function)', 'unsupported_shape', 'internal_error', 'ill_typed_late')}
        cov['functions_encoded'] = 'every eval*/on* body emitted by uigen::binding::CxxCodeBodyTranslator for the corpus (output of typedexpr::walk*, tir::builder, tir::core::finalize_completion_values, tir::propdep)'
        if extra:
            cov.update(extra)
        if st['undecided'] > max(2, st['programs'] // 200):
            self.res.inconc(f"{st['undecided']} queries undecided by z3 (timeout/unknown): more than 0.5% of the corpus")
        cov['undecided_policy'] = 'a program whose query z3 cannot decide within the timeout is listed here, not counted in `programs`, and claimed neither way; more than max(2, 0.5%) of them make the run inconclusive'
        if st['programs'] == 0:
            self.res.inconc('no program reached the solver')
        shutil.rmtree(self.work, ignore_errors=True)


# ----------------------------------------------------------------------------------------- replays
def _stage3(p, hdr, nprog, make_query):
    """re-solve with precise arithmetic and the library functions as the mock implements them"""
    an = D.Analysis(p, hdr, nprog, False, concrete_lib=True)
    an.ref_side()
    an.impl_side()
    disj = make_query(an)
    disj = [d[0] if isinstance(d, tuple) else d for d in disj]
    r, model, secs, _ = D.solve(disj, D.wf_constraints(an))
    return an, (model if r == z3.sat else None)


def _active_ref(an, model):
    for (p, kind, rv) in an.ref_outs:
        if z3.is_true(model.eval(z3.And(p.pc), model_completion=True)):
            return p, kind, rv
    return None, None, None


def replay_value(suite, p, doc, cli, hdr, v, d, make_query):
    """binding: build the model's state, call eval<X>() of the unmodified header, compare with the reference value"""
    import copy
    p = copy.copy(p)
    doc, cli, rej = D.translate(suite.qmluic, os.path.join(d, 'cli'), [p])       # a document holding only this binding
    if doc is None:
        return None, {'error': 'single-binding document rejected: %s' % rej}
    hdr = cxx.Header(cli.header)
    try:
        an, model = _stage3(p, hdr, len(doc.programs), make_query)
    except NotImplementedError as e:
        return None, {'error': f'counterexample depends on a library function without concrete model: {e}'}
    if model is None:
        return None, {'error': 'sat only for some interpretation of the uninterpreted library functions; not replayable with the mock'}
    info = {'model': D.describe_model(an, model)}
    rp, kind, rv = _active_ref(an, model)
    val = rv if kind == 'return' else (rp.cv if rp is not None else None)
    exp = None
    if val is not None and val[0] is not None and z3.is_true(model.eval(z3.And(rp.d, rp.vok), model_completion=True)):
        exp = RP.canon(RP.z3_to_py(val[0], val[1], model, an.store.ids), val[1])
    info['expected'] = exp if exp is not None else '(any: only the control-flow obligation is violated)'
    bads = [why for c, why in an.impl_bad if z3.is_true(model.eval(c, model_completion=True))]
    info['solver_says'] = bads or 'value differs'
    RP.prepare(d, 'Doc', an.env, cli.header)
    with open(os.path.join(d, 'Doc.qml'), 'w') as f:
        f.write(doc.text)
    lines = RP.driver_prologue('Doc', an.env, RP.model_state(an, model))
    lines.append(f'        std::cout << "RESULT " << verif::show(sup.eval{p.suffix()}()) << "\\n";')
    lines += RP.driver_epilogue()
    out, err = RP.compile_run(d, lines)
    if out is None:
        return None, dict(info, error=err)
    info['actual'] = out.strip() + (' | ' + err.strip() if err.strip() else '')
    got = [l[7:] for l in out.split('\n') if l.startswith('RESULT ')]
    misbehaved = 'UNREACHABLE' in out or 'runtime error' in err or 'ABORT' in out or not got
    if exp is None:
        reproduced = misbehaved
    else:
        reproduced = misbehaved or got[0] != exp
    if not reproduced and any('unassigned' in str(b) for b in bads):
        # an uninitialised read need not change the result: ask valgrind whether the emitted code uses one
        hit, ex = RP.valgrind_uninit(d)
        info['valgrind'] = ex
        if hit:
            reproduced, misbehaved = True, True
            info['actual'] += ' | valgrind: use of uninitialised value inside the emitted function'
    info['summary'] = 'emitted function misbehaves' if misbehaved else 'emitted function returns a value other than the source expression denotes'
    info['site'] = 'eval function'
    return reproduced, info


def trace_text(effects, model, an):
    out = []
    for (kind, recv, member, args) in effects:
        rn = RP.z3_to_py(recv, 'ptr:VNode', model, an.store.ids) if recv is not None else None
        vals = [RP.canon(RP.z3_to_py(a, t, model, an.store.ids), t) for a, t in args]
        if kind == 'set':
            out.append(f'SET {rn}.{member} {vals[0]}')
        elif kind == 'call':
            out.append(f'CALL {rn}.{member}' + ''.join(' ' + x for x in vals))
        else:
            out.append(f'LOG {member}' + ''.join(' ' + x for x in vals))
    return out


def replay_trace(suite, p, doc, cli, hdr, v, d, make_query):
    """callback: build the state, run setup(), emit the signal with the model's arguments, compare traces"""
    import copy
    p = copy.copy(p)
    doc, cli, rej = D.translate(suite.qmluic, os.path.join(d, 'cli'), [p])      # document holding only this handler
    if doc is None:
        return None, {'error': 'single-handler document rejected: %s' % rej}
    hdr = cxx.Header(cli.header)
    try:
        an, model = _stage3(p, hdr, len(doc.programs), make_query)
    except NotImplementedError as e:
        return None, {'error': f'counterexample depends on a library function without concrete model: {e}'}
    if model is None:
        return None, {'error': 'sat only for some interpretation of the uninterpreted library functions; not replayable with the mock'}
    info = {'model': D.describe_model(an, model)}
    rp, kind, rv = _active_ref(an, model)
    exp = trace_text(rp.effects, model, an) if rp is not None else []
    info['expected'] = exp
    RP.prepare(d, 'Doc', an.env, cli.header)
    with open(os.path.join(d, 'Doc.qml'), 'w') as f:
        f.write(doc.text)
    lines = RP.driver_prologue('Doc', an.env, RP.model_state(an, model))
    lines.append('        sup.setup();')
    lines.append('        verif::trace().str("");')
    sigs = an.env.cls('VNode').signals_named(p.signal)
    full = max(sigs, key=lambda s: len(s.args))
    args = []
    for i, t in enumerate(full.args):
        if i in an.param_vals:
            args.append(RP.cxx_lit(RP.z3_to_py(an.param_vals[i][0], t, model, an.store.ids), t))
        else:
            args.append(RP.cxx_type(t).replace(' *', '*') + '()' if not t.startswith('ptr:') else 'nullptr')
    lines.append(f'        {p.target()}.{p.signal}(' + ', '.join(args) + ');')
    lines += RP.driver_epilogue()
    out, err = RP.compile_run(d, lines)
    if out is None:
        return None, dict(info, error=err)
    got = [l for l in out.split('\n') if l.strip()]
    info['actual'] = got + ([err.strip()] if err.strip() else [])
    reproduced = got != exp or 'runtime error' in err
    info['summary'] = 'emitting the signal does not perform the effects the handler prescribes'
    info['site'] = 'callback'
    return reproduced, info
