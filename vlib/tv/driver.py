"""Engine B driver: corpus programs -> QML documents -> real `qmluic generate-ui` -> emitted header ->
symbolic execution of both sides -> z3 queries (two stages) -> models -> replay."""
import os, re, shutil, subprocess, time
import z3
from .. import common as C
from . import lang as L, env as E, cxx, ref as R
from .sem import Prims, ListVal, equal, ite, fresh, TRUE, FALSE, bv, sort_of

META_DIR = os.path.join(C.REPO, 'contrib', 'metatypes')
Z3_TIMEOUT_MS = 20000
BASE_OBJECTS = ['a', 'b', 'c']


class Program:
    """one binding or callback placed on its own target object t<i>"""
    def __init__(self, kind, ty, body, params=None, signal=None, tag='', owner_props=None):
        self.kind = kind            # 'binding' | 'callback'
        self.ty = ty                # value type of a binding
        self.body = body            # expression tuple, or list of statements
        self.params = params or []  # callbacks: [(name, type)]
        self.signal = signal        # callbacks: signal name (e.g. 'fired')
        self.form = 'expr' if isinstance(body, tuple) else 'block'
        self.tag = tag              # generator family (for evidence)
        self.idx = None
        self.func_style = 'function'    # callbacks: 'function' | 'expr' | 'block'
        self.printer = None             # alternative expression printer (minimal parentheses)
        self.group = None               # grouped (gadget) binding: ('font', 'pointSize', [(sibling member, constant expr)...])

    def target(self):
        return f't{self.idx}'

    def source(self, ind='      '):
        if self.kind == 'binding':
            from .gen import TARGET
            prop = TARGET[self.ty] if self.group is None else f'{self.group[0]}.{self.group[1]}'
            if self.group is not None:
                sib = ''.join(f'; {self.group[0]}.{m}: {L.pp(e)}' for m, e in self.group[2])
                if self.form == 'expr':
                    return f'{prop}: {L.pp(self.body)}{sib}'
                return f'{prop}: {{\n' + '\n'.join(L.pps(self.body, ind)) + f'\n{ind[:-2]}}}{sib}'
            if self.form == 'expr':
                return f'{prop}: {(self.printer or L.pp)(self.body)}'
            return f'{prop}: {{\n' + '\n'.join(L.pps(self.body, ind)) + f'\n{ind[:-2]}}}'
        name = 'on' + self.signal[0].upper() + self.signal[1:]
        if self.func_style == 'expr':
            return f'{name}: {L.pps(self.body)[0].rstrip(";")}'
        if self.func_style == 'block':
            return f'{name}: {{\n' + '\n'.join(L.pps(self.body, ind)) + f'\n{ind[:-2]}}}'
        ps = ', '.join(f'{n}: {qml_type(t)}' for n, t in self.params)
        return f'{name}: function({ps}) {{\n' + '\n'.join(L.pps(self.body, ind)) + f'\n{ind[:-2]}}}'

    def group_suffix(self):
        t = self.target()
        g = self.group[0]
        return t[0].upper() + t[1:] + g[0].upper() + g[1:]

    def suffix(self):
        t = self.target()
        if self.group is not None:
            m = self.group[1]
            return self.group_suffix() + m[0].upper() + m[1:]
        if self.kind == 'binding':
            from .gen import TARGET
            p = TARGET[self.ty]
        else:
            p = self.signal
        return t[0].upper() + t[1:] + p[0].upper() + p[1:]


qml_type = L.qml_type


def make_env(nprog, this=None):
    objs = {o: 'VNode' for o in BASE_OBJECTS}
    for i in range(nprog):
        objs[f't{i}'] = 'VNode'
    objs['root'] = 'QDialog'
    classes = dict(E.vnode_classes())
    if 'QDialog' not in classes:
        classes['QDialog'] = E.ClassDesc({'className': 'QDialog', 'superClasses': []}, classes)
    env = L.Env(classes, objs, this)
    env.universe = set(BASE_OBJECTS) | ({this} if this else set())
    return env


class Doc:
    def __init__(self, programs, extra_objects=''):
        self.programs = programs
        for i, p in enumerate(programs):
            p.idx = i
        lines = ['import qmluic.QtWidgets', 'QDialog {', '  id: root', '  QVBoxLayout {',
                 '    VNode { id: a; next: b }', '    VNode { id: b; next: c }', '    VNode { id: c }']
        self.ranges = []
        for p in programs:
            start = len(lines) + 1
            src = p.source()
            lines.append(f'    VNode {{ id: {p.target()}')
            lines += ['      ' + l if k == 0 else l for k, l in enumerate(src.split('\n'))]
            lines.append('    }')
            self.ranges.append((start, len(lines)))
        lines += ['  }', '}']
        self.text = '\n'.join(lines) + '\n'


class CliResult:
    def __init__(self, rc, header, ui, stderr):
        self.rc, self.header, self.ui, self.stderr = rc, header, ui, stderr


def run_cli(qmluic, workdir, text, name='Doc', extra_meta=()):
    os.makedirs(workdir, exist_ok=True)
    path = os.path.join(workdir, name + '.qml')
    with open(path, 'w') as f:
        f.write(text)
    for fn in (f'uisupport_{name.lower()}.h', f'{name.lower()}.ui'):
        try:
            os.remove(os.path.join(workdir, fn))
        except FileNotFoundError:
            pass
    cmd = [qmluic, 'generate-ui', '--foreign-types', META_DIR, '--foreign-types', E.VNODE_META]
    for m in extra_meta:
        cmd += ['--foreign-types', m]
    cmd.append(name + '.qml')
    try:
        r = subprocess.run(cmd, cwd=workdir, capture_output=True, text=True, timeout=120, env=dict(C.ENV, NO_COLOR='1'))
    except subprocess.TimeoutExpired:
        return CliResult(-9, None, None, 'timeout')
    header = ui = None
    hp = os.path.join(workdir, f'uisupport_{name.lower()}.h')
    up = os.path.join(workdir, f'{name.lower()}.ui')
    if r.returncode == 0 and os.path.exists(hp):
        header = open(hp).read()
    if r.returncode == 0 and os.path.exists(up):
        ui = open(up).read()
    return CliResult(r.returncode, header, ui, r.stderr)


def error_lines(stderr, name='Doc'):
    """-> [(line, message)] of error diagnostics"""
    out = []
    msg = None
    for ln in stderr.split('\n'):
        m = re.match(r'error(?:\[\w+\])?: (.*)', ln)
        if m:
            msg = m.group(1)
        m = re.search(rf'{name}\.qml:(\d+):(\d+)', ln)
        if m and msg is not None:
            out.append((int(m.group(1)), msg))
            msg = None
    return out


def translate(qmluic, workdir, programs):
    """Runs the CLI on the programs, dropping rejected ones until the rest is accepted.
    -> (Doc of accepted programs | None, CliResult, rejected [(program, message)])"""
    rejected = []
    progs = list(programs)
    for _ in range(len(programs) + 2):
        if not progs:
            return None, None, rejected
        doc = Doc(progs)
        res = run_cli(qmluic, workdir, doc.text)
        if res.rc == 0 and res.header is not None:
            return doc, res, rejected
        errs = error_lines(res.stderr)
        if not errs and 'panicked at' in res.stderr:
            # the translator crashed: find one program that makes it crash on its own (bisection), drop it, go on
            culprit = _find_panicking(qmluic, workdir, progs)
            if culprit is None:
                raise C.Inconclusive(f'qmluic panics on a batch but on none of its programs alone:\n{res.stderr[-800:]}')
            i, msg = culprit
            rejected.append((progs[i], 'PANIC: ' + msg))
            del progs[i]
            continue
        if not errs:
            raise C.Inconclusive(f'qmluic failed without a located diagnostic (rc={res.rc}):\n{res.stderr[-1500:]}')
        bad = {}
        for line, msg in errs:
            for i, (a, b) in enumerate(doc.ranges):
                if a <= line <= b:
                    bad.setdefault(i, msg)
        if not bad:
            raise C.Inconclusive('diagnostic outside every generated binding:\n' + res.stderr[-1500:])
        for i in sorted(bad, reverse=True):
            rejected.append((progs[i], bad[i]))
            del progs[i]
    raise C.Inconclusive('translate(): did not converge')


def _panic_message(stderr):
    m = re.search(r"panicked at ([^\n]*)\n([^\n]*)", stderr)
    return (m.group(1).strip() + ': ' + m.group(2).strip())[:300] if m else 'panic'


def _find_panicking(qmluic, workdir, progs):
    """-> (index, message) of a program whose single-program document makes the CLI panic"""
    idx = list(range(len(progs)))
    while len(idx) > 1:
        half = idx[:len(idx) // 2]
        r = run_cli(qmluic, workdir, Doc([progs[i] for i in half]).text)
        idx = half if 'panicked at' in r.stderr else idx[len(idx) // 2:]
    r = run_cli(qmluic, workdir, Doc([progs[idx[0]]]).text)
    if 'panicked at' in r.stderr:
        return idx[0], _panic_message(r.stderr)
    return None


# ----------------------------------------------------------------------------------------- analysis
class Analysis:
    """both sides of one program under one Prims instance"""
    def __init__(self, prog, header, nprog, abstract, enums=None, concrete_lib=False):
        self.prog = prog
        self.P = Prims(abstract, concrete_lib)
        self.env = make_env(nprog, prog.target())
        self.store = R.Store(self.env)
        self.enums = enums or E.ENUMS
        self.header = header
        self.param_vals = {}

    def ref_side(self):
        prog = self.prog
        r = R.Ref(self.env, self.P, self.store)
        p0 = R.initial_path(self.store.copy())
        sc = L.Scope()
        for i, (n, t) in enumerate(prog.params):
            v = fresh(f'arg{i}', t)
            self.param_vals[i] = (v, t)
            r.declare(p0, sc, n, t, 'let', v)
        if prog.form == 'expr' and prog.kind == 'binding':
            v, ty = r.ev(prog.body, p0, sc, prog.ty)
            outs = [(p0, 'return', (v, L.conc(ty), prog.body, L.typeof(prog.body, self.env, sc)))]
        else:
            outs = r.run(prog.body, [(p0, 'normal', None)], sc)
        self.ref_outs = outs
        if prog.kind == 'binding':
            self.check_result_type(outs)
        return outs

    def check_result_type(self, outs):
        """documented rule: all results of a binding have one common type, assignable to the bound property
        (no implicit conversion other than object upcast)"""
        raw = []
        for (p, kind, rv) in outs:
            x = rv if kind == 'return' else (p.cv if kind == 'normal' else None)
            if kind == 'break':
                raise L.IllTyped('break outside switch')
            if x is None or x[0] is None:
                raise L.IllTyped('a path of a value binding yields no value')
            raw.append(x[3] if len(x) > 3 else x[1])
        t = raw[0]
        for u in raw[1:]:
            t = L.unify(t, u)
        if not L.assignable(self.env, self.prog.ty, t):
            raise L.IllTyped(f'result type {t} is not assignable to {self.prog.ty}')

    def impl_side(self):
        prog = self.prog
        name = ('eval' if prog.kind == 'binding' else 'on') + prog.suffix()
        if name not in self.header.funcs:
            return None
        f = self.header.funcs[name]
        ex = cxx.Exec(f, self.env, self.P, self.store, 'root', self.enums)
        pv = {}
        for i, (ty, n) in enumerate(f.params):
            if i not in self.param_vals:
                self.param_vals[i] = (fresh(f'arg{i}', ty), ty)
            v, t = self.param_vals[i]
            if t != ty:
                raise cxx.Unsupported(f'parameter {i}: emitted type {ty}, declared {t}')
            pv[n] = v
        self.exec = ex
        self.impl_results, self.impl_bad = ex.run(pv)
        return ex


def wf_constraints(an):
    cs = list(an.store.wf())
    for i, (v, t) in an.param_vals.items():
        if t.startswith('ptr:'):
            cs.append(z3.Or([v == 0] + [v == an.store.oid[o] for o in an.store.universe() if an.env.objects[o] == t[4:]]))
        elif t == 'QStringList':
            cs.append(v.wf())
    return cs


def value_query(an):
    """C01: exists state. ref defined and (impl misbehaves or returns another value)"""
    prog = an.prog
    disj = []
    for (p, kind, rv) in an.ref_outs:
        val = rv if kind == 'return' else (p.cv if kind == 'normal' else None)
        if val is None or val[0] is None:
            continue       # no value on this path: the reference says nothing
        v, ty = val[0], val[1]
        dfn = z3.And(p.pc, p.d, p.vok)
        for r in an.impl_results:
            if r['value'] is None or r['value'].t is None:
                disj.append(z3.And(dfn, r['pc']))        # returns without value where the source has one
                continue
            disj.append(z3.And(dfn, r['pc'], z3.Not(equal(r['value'].t, v))))
        for c, why in an.impl_bad:
            disj.append(z3.And(dfn, c))
    return disj


def control_query(an):
    """C06 symbolic part: exists state (no user variable read before assignment in the source). impl reaches
    Q_UNREACHABLE / runs off the end / value function returns without value / reads an unassigned local"""
    prog = an.prog
    bad = [(c, why) for c, why in an.impl_bad
           if why.startswith(('reaches Q_UNREACHABLE', 'control runs off', 'read of unassigned', 'goto '))]
    if prog.kind == 'binding':
        for r in an.impl_results:
            if r['value'] is None or r['value'].t is None:
                bad.append((r['pc'], 'value function returns without a value'))
    vok = z3.Or([z3.And(p.pc, p.vok) for (p, kind, rv) in an.ref_outs]) if an.ref_outs else TRUE
    # arithmetic definedness is irrelevant for control flow; only the assigned-before-read side condition
    # of the *source* is assumed for the unassigned-read obligation
    disj = []
    for c, why in bad:
        if why.startswith('read of unassigned'):
            disj.append((z3.And(c, vok), why))
        else:
            disj.append((c, why))
    return disj


def effects_differ(ea, eb):
    """two effect traces (lists) differ"""
    if len(ea) != len(eb):
        return TRUE
    ds = []
    for x, y in zip(ea, eb):
        if x[0] != y[0] or x[2] != y[2] or len(x[3]) != len(y[3]):
            return TRUE
        if x[1] is not None:
            ds.append(x[1] != y[1])
        for (va, ta), (vb, tb) in zip(x[3], y[3]):
            if ta != tb:
                # console.log of an int vs uint etc. prints differently
                return TRUE
            ds.append(z3.Not(equal(va, vb)))
    return z3.Or(ds) if ds else FALSE


def trace_query(an):
    """C13: exists state/arguments. source defined and emitted trace differs (or impl misbehaves)"""
    disj = []
    for (p, kind, rv) in an.ref_outs:
        dfn = z3.And(p.pc, p.d, p.vok)
        for r in an.impl_results:
            d = effects_differ(p.effects, r['effects'])
            if d is not FALSE:
                disj.append(z3.And(dfn, r['pc'], d))
        for c, why in an.impl_bad:
            disj.append(z3.And(dfn, c))
    return disj


class Verdict:
    def __init__(self, status, model=None, stage=None, why=None, secs=0.0, an=None):
        self.status, self.model, self.stage, self.why, self.secs, self.an = status, model, stage, why, secs, an


def solve(disj, wf, timeout_ms=Z3_TIMEOUT_MS):
    s = z3.Solver()
    s.set('timeout', timeout_ms)
    s.add(*wf)
    s.add(z3.Or(disj) if disj else FALSE)
    t0 = time.time()
    r = s.check()
    return r, (s.model() if r == z3.sat else None), time.time() - t0, s


def decide(prog, header, nprog, make_query, stats):
    """two-stage decision: stage 1 with * / % and double arithmetic abstracted to shared uninterpreted
    functions (unsat there is unsat for every interpretation), stage 2 precise.  A sat answer is accepted
    only from stage 2."""
    total = 0.0
    for abstract in (True, False):
        an = Analysis(prog, header, nprog, abstract)
        an.ref_side()
        if an.impl_side() is None:
            return Verdict('no-function')
        disj = make_query(an)
        disj = [d[0] if isinstance(d, tuple) else d for d in disj]
        r, model, secs, solver = solve(disj, wf_constraints(an))
        total += secs
        stats['queries'] += 1
        stats['solver_s'] += secs
        if r == z3.unsat:
            stats['stage1_unsat' if abstract else 'stage2_unsat'] += 1
            return Verdict('unsat', stage=1 if abstract else 2, secs=total, an=an)
        if abstract:
            continue
        if r == z3.sat:
            return Verdict('sat', model=model, stage=2, secs=total, an=an)
        return Verdict('unknown', stage=2, secs=total, why=solver.reason_unknown(), an=an)


def witness(an):
    """vacuity: some impl path that reaches a result must be satisfiable together with wf"""
    s = z3.Solver()
    s.set('timeout', 5000)
    s.add(*wf_constraints(an))
    s.add(z3.Or([r['pc'] for r in an.impl_results]) if an.impl_results else FALSE)
    return s.check() == z3.sat


def describe_model(an, model):
    """human-readable assignment of the symbolic inputs"""
    out = {}
    for (o, p), v in sorted(an.store.base.vals.items()):
        if isinstance(v, ListVal):
            n = model.eval(v.len, model_completion=True).as_long()
            out[f'{o}.{p}'] = [str(model.eval(v.elems[i], model_completion=True)) for i in range(max(0, min(n, 3)))]
        else:
            out[f'{o}.{p}'] = str(model.eval(v, model_completion=True))
    for i, (v, t) in sorted(an.param_vals.items()):
        if not isinstance(v, ListVal):
            out[f'arg{i}'] = str(model.eval(v, model_completion=True))
    return out
