"""Replay of z3 models against the *unmodified* emitted header: the header is compiled with g++ against a mock
of the API it uses (data/qtmock.h + a VNode class generated from the same metatypes JSON) and executed from
the state / signal arguments / change history the model describes.  Expected values come from evaluating the
reference terms under the same model.  The mock is used only here, never in a verdict."""
import os, re, shutil, struct, subprocess
import z3
from .. import common as C
from . import env as E
from .sem import ListVal

CXX = ['g++', '-std=c++17', '-O0', '-fsanitize=undefined', '-fno-sanitize-recover=return', '-ftrivial-auto-var-init=pattern', '-w']


# ----------------------------------------------------------------------------- values <-> text
def z3_to_py(v, ty, model, ids=None):
    """concrete python value of term v (of modelled type ty) under model"""
    if isinstance(v, ListVal):
        n = model.eval(v.len, model_completion=True).as_long()
        n = max(0, min(n, len(v.elems)))
        return [z3_to_py(v.elems[i], 'QString', model) for i in range(n)]
    r = _closed_value(model.eval(v, model_completion=True))
    if ty in ('int',) or ty.startswith('enum:'):
        x = r.as_long()
        return x - (1 << 32) if x >= (1 << 31) else x
    if ty == 'uint':
        return r.as_long()
    if ty == 'bool':
        r = z3.simplify(r)
        if z3.is_true(r) or z3.is_false(r):
            return z3.is_true(r)
        # closed term the model evaluator leaves unreduced (e.g. `"" < "q"` becomes Not("" == "q")): ask the solver
        sv = z3.Solver()
        sv.add(r)
        return sv.check() == z3.sat
    if ty == 'double':
        bits = z3.simplify(z3.fpToIEEEBV(r))
        if z3.is_bv_value(bits):
            return struct.unpack('<d', struct.pack('<Q', bits.as_long()))[0]
        if r.isNaN():
            return float('nan')
        raise ValueError('cannot evaluate double ' + str(r))
    if ty == 'QString':
        return decode_z3_string(r.as_string())
    if ty.startswith('ptr:'):
        k = r.as_long()
        return None if k == 0 else (ids[k - 1] if ids and 1 <= k <= len(ids) else f'#{k}')
    raise ValueError(ty)


def _closed_value(r):
    """closed terms the model evaluator leaves unreduced (z3 4.8 does not fold string comparisons, e.g.
    `If("" == "q", ..)`): pin the term to a fresh constant and read that constant from a solver model"""
    r = z3.simplify(r)
    if z3.is_bool(r) or z3.is_fp(r):
        return r
    if z3.is_bv_value(r) or z3.is_string_value(r) or z3.is_int_value(r):
        return r
    c = z3.FreshConst(r.sort(), 'cv')
    sv = z3.Solver()
    sv.add(c == r)
    if sv.check() != z3.sat:
        raise ValueError('cannot evaluate ' + str(r))
    return sv.model().eval(c, model_completion=True)


def decode_z3_string(s):
    return re.sub(r'\\u\{([0-9a-fA-F]+)\}', lambda m: chr(int(m.group(1), 16)), s)


def canon(v, ty):
    """canonical text of a python value; must agree with verif::show() of the mock"""
    if ty == 'QStringList':
        return 'L[' + ','.join(canon(x, 'QString') for x in v) + ']'
    if ty == 'int' or ty.startswith('enum:'):
        return f'I:{v}'
    if ty == 'uint':
        return f'U:{v}'
    if ty == 'bool':
        return 'B:' + ('true' if v else 'false')
    if ty == 'double':
        if v != v:
            return 'D:nan'
        return 'D:%016x' % struct.unpack('<Q', struct.pack('<d', v))[0]
    if ty == 'QString':
        return 'S:' + v.encode('utf-8').hex()
    if ty.startswith('ptr:'):
        return 'P:' + (v if v else 'null')
    raise ValueError(ty)


def cxx_lit(v, ty):
    if ty == 'QStringList':
        return 'QStringList{' + ', '.join(cxx_lit(x, 'QString') for x in v) + '}'
    if ty == 'int':
        return f'(int)({v}LL)'
    if ty.startswith('enum:'):
        return f'(VNode::{ty[5:]})({v})'
    if ty == 'uint':
        return f'{v}u'
    if ty == 'bool':
        return 'true' if v else 'false'
    if ty == 'double':
        if v != v:
            return 'std::nan("")'
        return 'verif::from_bits(0x%016xULL)' % struct.unpack('<Q', struct.pack('<d', v))[0]
    if ty == 'QString':
        return 'QString::fromHex("' + v.encode('utf-8').hex() + '")'
    if ty.startswith('ptr:'):
        return f'&{v}' if v else 'nullptr'
    raise ValueError(ty)


# ----------------------------------------------------------------------------- generated mock class
def cxx_type(ty):
    if ty.startswith('ptr:'):
        return ty[4:] + ' *'
    if ty.startswith('enum:'):
        return 'VNode::' + ty[5:]
    return ty


def gen_vnode_header(cls, enums):
    L = ['#pragma once', '#include "qtmock.h"', 'class VNode;', 'namespace verif { std::string show(VNode *p); }',
         'class VNode : public QWidget {', 'public:', '    std::string name_;']
    for en, vals in enums.items():
        L.append(f'    enum {en} {{ ' + ', '.join(f'{n} = {v}' for n, v in vals) + ' };')
    for p in cls.props.values():
        ct = cxx_type(p.ty)
        L.append(f'    {ct} {p.name}_{{}};')
        L.append(f'    {ct} {p.read}() const {{ return {p.name}_; }}')
        if p.write:
            sig = cls.notify_signal_of(p.name)
            emit = ''
            if sig is not None:
                emit = f' {sig.name}({"v" if sig.args else ""});'
            L.append(f'    void {p.write}({"const " + ct + " &" if ct in ("QString", "QStringList", "QFont") else ct} v) {{ '
                     f'verif::trace() << "SET " << name_ << ".{p.name} " << verif::show(v) << "\\n"; if ({p.name}_ == v) return; {p.name}_ = v;{emit} }}')
    seen = set()
    for s in cls.signals:
        key = (s.name, tuple(s.args))
        if key in seen:
            continue
        seen.add(key)
        params = ', '.join(f'{"const QString &" if t == "QString" else cxx_type(t)} p{i}' for i, t in enumerate(s.args))
        targs = ', '.join(['VNode'] + [("const QString &" if t == "QString" else cxx_type(t)) for t in s.args])
        fam = [m for m in cls.signals_named(s.name) if m.args[:len(s.args)] == s.args]
        full = max(fam, key=lambda m: len(m.args))
        if len(s.args) == len(full.args):
            call = f'emitSignal<{targs}>(&VNode::{s.name}' + ''.join(f', p{i}' for i in range(len(s.args))) + ');'
        else:
            # default-argument family: the shorter overload emits the longest one with defaults
            dflt = ''.join(f', p{i}' for i in range(len(s.args))) + ''.join(', ' + cxx_type(t).replace('const ', '').replace(' &', '') + '()' for t in full.args[len(s.args):])
            call = f'{s.name}({dflt[2:]});'
        L.append(f'    void {s.name}({params}) {{ {call} }}')
    for m in cls.slots + cls.methods:
        params = ', '.join(f'{"const QString &" if t == "QString" else cxx_type(t)} p{i}' for i, t in enumerate(m.args))
        shows = ''.join(f' << " " << verif::show(p{i})' for i in range(len(m.args)))
        ret = ''
        if m.ret != 'void':
            ret = ' return (int)((unsigned)p0 * 2u);' if m.name == 'twice' else f' return {cxx_type(m.ret)}();'
        L.append(f'    {cxx_type(m.ret)} {m.name}({params}) {{ verif::trace() << "CALL " << name_ << ".{m.name}"{shows} << "\\n";{ret} }}')
    L.append('};')
    L.append('inline std::string verif::show(VNode *p) { return std::string("P:") + (p ? p->name_ : "null"); }')
    L.append('inline QDebugStream &operator<<(QDebugStream &s, VNode *p) { s.parts.push_back(verif::show(p)); return s; }')
    for en in enums:
        for op in '|&^':
            L.append(f'inline VNode::{en} operator{op}(VNode::{en} a, VNode::{en} b) {{ return (VNode::{en})((int)a {op} (int)b); }}')
        L.append(f'inline VNode::{en} operator~(VNode::{en} a) {{ return (VNode::{en})(~(int)a); }}')
        L.append(f'namespace verif {{ inline std::string show(VNode::{en} v) {{ return show((int)v); }} }}')
    L.append('inline QDebugStream &operator<<(QDebugStream &s, VNode::Mode m) { s.parts.push_back(verif::show((int)m)); return s; }')
    return '\n'.join(L) + '\n'


def gen_ui_header(name, env):
    objs = [(o, c) for o, c in env.objects.items() if o != 'root']
    return ('#pragma once\n#include "vnode.h"\nnamespace Ui { struct ' + name + ' { ' +
            ' '.join(f'{c} *{o};' for o, c in objs) + ' }; }\n')


def prepare(workdir, name, env, header_text):
    os.makedirs(workdir, exist_ok=True)
    shutil.copy(os.path.join(E.DATA, 'qtmock.h'), os.path.join(workdir, 'qtmock.h'))
    with open(os.path.join(workdir, 'vnode.h'), 'w') as f:
        f.write(gen_vnode_header(env.cls('VNode'), E.ENUMS))
    with open(os.path.join(workdir, f'ui_{name.lower()}.h'), 'w') as f:
        f.write(gen_ui_header(name, env))
    with open(os.path.join(workdir, f'uisupport_{name.lower()}.h'), 'w') as f:
        f.write(header_text)


def driver_prologue(name, env, state):
    """state: {(obj, prop): (python value, type)}"""
    objs = [(o, c) for o, c in env.objects.items() if o != 'root']
    L = [f'#include "ui_{name.lower()}.h"', '#define private public', f'#include "uisupport_{name.lower()}.h"', '#undef private', 'int main() {',
         '    QDialog root;'] + [f'    {c} {o}; {o}.name_ = "{o}";' for o, c in objs]
    L.append(f'    Ui::{name} ui{{' + ', '.join(f'&{o}' for o, _ in objs) + '};')
    for (o, p), (v, ty) in sorted(state.items()):
        L.append(f'    {o}.{p}_ = {cxx_lit(v, ty)};')
    L.append(f'    UiSupport::{name} sup(&root, &ui);')
    L.append('    try {')
    return L


def driver_epilogue():
    return ['    } catch (verif::Abort &) { verif::trace() << "ABORT\\n"; }', '    std::cout << verif::trace().str();', '    return 0;', '}']


def compile_run(workdir, lines):
    with open(os.path.join(workdir, 'driver.cpp'), 'w') as f:
        f.write('\n'.join(lines) + '\n')
    r = subprocess.run(CXX + ['driver.cpp', '-o', 'driver'], cwd=workdir, capture_output=True, text=True, timeout=300)
    if r.returncode != 0:
        return None, 'compile error:\n' + r.stderr[-3000:]
    r = subprocess.run(['./driver'], cwd=workdir, capture_output=True, text=True, timeout=60)
    return r.stdout, r.stderr[-2000:]


def model_state(an, model):
    """concrete values of every symbolic input property in the model"""
    st = {}
    ids = an.store.ids
    for (o, p), v in an.store.base.vals.items():
        ty = an.env.cls(an.env.objects[o]).prop(p).ty
        st[(o, p)] = (z3_to_py(v, ty, model, ids), ty)
    return st


def valgrind_uninit(workdir):
    """second build without auto-var-init / sanitizers, run under valgrind memcheck: does the emitted code use an
    uninitialised value?  -> (True/False/None, excerpt)"""
    r = subprocess.run(['g++', '-std=c++17', '-O0', '-g', '-w', 'driver.cpp', '-o', 'driver_vg'], cwd=workdir, capture_output=True, text=True, timeout=300)
    if r.returncode != 0:
        return None, 'compile error'
    r = subprocess.run(['valgrind', '-q', '--error-exitcode=9', '--track-origins=yes', './driver_vg'], cwd=workdir, capture_output=True, text=True, timeout=300)
    err = r.stderr
    hit = ('uninitialised value' in err) and ('UiSupport::' in err)
    ex = '\n'.join(l for l in err.split('\n') if 'uninitialised' in l or 'UiSupport::' in l)[:600]
    return hit, ex
