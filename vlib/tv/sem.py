"""Value domain and primitive operations (z3) used by both the reference encoder and the symbolic executor
of the emitted C++.  Only *primitives* are shared (what `+` on two 32-bit ints means and when it is
undefined); which primitive is applied to which operands, conversions and control flow are encoded
separately on each side.

Sorts: int/uint -> BV32, bool -> Bool, double -> Float64 (RNE), QString -> String,
       pointer -> Int (0 = null, 1..n = declared objects), enum -> BV32,
       QStringList -> ListVal(len Int in [0,MAXL], MAXL String elements).
"""
import z3

BV32 = z3.BitVecSort(32)
F64 = z3.Float64()
B = z3.BoolSort()
STR = z3.StringSort()
INT = z3.IntSort()
RNE = z3.RNE()
RTZ = z3.RTZ()
MAXL = 3
INT_MIN = -(1 << 31)
TRUE, FALSE = z3.BoolVal(True), z3.BoolVal(False)


def bv(v):
    return z3.BitVecVal(v, 32)


class ListVal:
    def __init__(self, length, elems):
        self.len = length
        self.elems = list(elems) + [z3.StringVal('')] * (MAXL - len(elems))

    @staticmethod
    def fresh(name):
        return ListVal(z3.Int(name + '.len'), [z3.String(f'{name}[{i}]') for i in range(MAXL)])

    def wf(self):
        return z3.And(self.len >= 0, self.len <= MAXL)

    def at(self, i_int):
        e = self.elems[MAXL - 1]
        for k in range(MAXL - 2, -1, -1):
            e = z3.If(i_int == k, self.elems[k], e)
        return e

    def eq(self, o):
        return z3.And(self.len == o.len, *[z3.Or(self.len <= k, self.elems[k] == o.elems[k]) for k in range(MAXL)])

    @staticmethod
    def ite(c, a, b):
        return ListVal(z3.If(c, a.len, b.len), [z3.If(c, x, y) for x, y in zip(a.elems, b.elems)])


def sort_of(ty):
    if ty in ('int', 'uint') or ty.startswith('enum:'):
        return BV32
    if ty == 'bool':
        return B
    if ty == 'double':
        return F64
    if ty == 'QString':
        return STR
    if ty.startswith('ptr:'):
        return INT
    raise ValueError('no scalar sort for ' + ty)


def fresh(name, ty):
    if ty == 'QStringList':
        return ListVal.fresh(name)
    return z3.Const(name, sort_of(ty))


def ite(c, a, b):
    if isinstance(a, ListVal):
        return ListVal.ite(c, a, b)
    if a is None or b is None:
        return a if b is None else b
    return z3.If(c, a, b)


def equal(a, b):
    """structural equality of two values of the same sort (NaN == NaN, +0 != -0: exact agreement)"""
    if isinstance(a, ListVal):
        return a.eq(b)
    return a == b


class Prims:
    """primitive operations; `abstract=True` replaces * / % and all double arithmetic by uninterpreted
    functions shared by both sides (stage 1: unsat under the abstraction is unsat for every interpretation)."""
    def __init__(self, abstract, concrete_lib=False):
        self.abstract = abstract
        self.concrete_lib = concrete_lib    # replay stage: library functions as the mock implements them
        self._uf = {}

    @staticmethod
    def _consts(*xs):
        """all arguments are literals: an abstracted operation is then given its true value (a refinement
        that every interpretation agreeing with the real operation satisfies, so stage-1 unsat stays sound)"""
        return all(z3.is_bv_value(x) or z3.is_fp_value(x) or (z3.is_fp(x) and z3.is_fp_value(z3.simplify(x))) for x in xs)

    def uf(self, name, *sorts):
        if name not in self._uf:
            self._uf[name] = z3.Function(name, *sorts)
        return self._uf[name]

    # --- integers ---------------------------------------------------------------------------------
    def iarith(self, op, signed, l, r):
        """-> (value, ub) for + - * / % on 32-bit int (signed) or uint (wrapping)"""
        A = self.abstract and not self._consts(l, r)
        if op == '+':
            v = l + r
            ub = z3.Not(z3.And(z3.BVAddNoOverflow(l, r, True), z3.BVAddNoUnderflow(l, r))) if signed else FALSE
        elif op == '-':
            v = l - r
            ub = z3.Not(z3.And(z3.BVSubNoOverflow(l, r), z3.BVSubNoUnderflow(l, r, True))) if signed else FALSE
        elif op == '*':
            v = self.uf('mul32', BV32, BV32, BV32)(l, r) if A else l * r
            if signed:
                ub = z3.Not(self.uf('mulnov32', BV32, BV32, B)(l, r)) if A else \
                    z3.Not(z3.And(z3.BVMulNoOverflow(l, r, True), z3.BVMulNoUnderflow(l, r)))
            else:
                ub = FALSE
        elif op in ('/', '%'):
            nm = ('s' if signed else 'u') + ('div32' if op == '/' else 'rem32')
            if A:
                v = self.uf(nm, BV32, BV32, BV32)(l, r)
            elif signed:
                v = l / r if op == '/' else z3.SRem(l, r)
            else:
                v = z3.UDiv(l, r) if op == '/' else z3.URem(l, r)
            ub = r == bv(0)
            if signed:
                ub = z3.Or(ub, z3.And(l == bv(INT_MIN), r == bv(-1)))
        else:
            raise ValueError(op)
        return v, ub

    def ibit(self, op, l, r):
        return {'&': l & r, '|': l | r, '^': l ^ r}[op]

    def ishift(self, op, signed, l, r):
        """count must be in [0,31]; << of a negative value or losing bits of a signed value is undefined
        (conservative C++17 reading); >> is arithmetic on int, logical on uint"""
        ub = z3.Not(z3.ULT(r, bv(32)))
        if op == '>>':
            return (l >> r if signed else z3.LShR(l, r)), ub
        v = l << r
        if signed:
            ub = z3.Or(ub, l < bv(0), (v >> r) != l)
        return v, ub

    def ineg(self, signed, v):
        return -v, ((v == bv(INT_MIN)) if signed else FALSE)

    def icmp(self, op, signed, l, r):
        if op == '==':
            return l == r
        if op == '!=':
            return l != r
        s = {'<': (l < r, z3.ULT(l, r)), '<=': (l <= r, z3.ULE(l, r)), '>': (l > r, z3.UGT(l, r)), '>=': (l >= r, z3.UGE(l, r))}[op]
        return s[0] if signed else s[1]

    # --- doubles ----------------------------------------------------------------------------------
    def farith(self, op, l, r):
        if self.abstract and not self._consts(l, r):
            return self.uf('f' + {'+': 'add', '-': 'sub', '*': 'mul', '/': 'div'}[op], F64, F64, F64)(l, r)
        v = {'+': z3.fpAdd, '-': z3.fpSub, '*': z3.fpMul, '/': z3.fpDiv}[op](RNE, l, r)
        return z3.simplify(v) if self._consts(l, r) else v

    def fcmp(self, op, l, r):
        return {'==': lambda: z3.fpEQ(l, r), '!=': lambda: z3.Not(z3.fpEQ(l, r)), '<': lambda: z3.fpLT(l, r),
                '<=': lambda: z3.fpLEQ(l, r), '>': lambda: z3.fpGT(l, r), '>=': lambda: z3.fpGEQ(l, r)}[op]()

    # --- bool / string -----------------------------------------------------------------------------
    def bcmp(self, op, l, r):
        return {'==': l == r, '!=': l != r, '<': z3.And(z3.Not(l), r), '<=': z3.Or(z3.Not(l), r),
                '>': z3.And(l, z3.Not(r)), '>=': z3.Or(l, z3.Not(r))}[op]

    def bbit(self, op, l, r):
        return {'&': z3.And(l, r), '|': z3.Or(l, r), '^': z3.Xor(l, r)}[op]

    def scmp(self, op, l, r):
        return {'==': lambda: l == r, '!=': lambda: l != r, '<': lambda: l < r, '<=': lambda: l <= r,
                '>': lambda: r < l, '>=': lambda: r <= l}[op]()

    # --- conversions (static_cast among the numeric types, bool/enum -> integer) --------------------
    def cast(self, v, frm, to):
        """-> (value, ub)"""
        if frm == to:
            return v, FALSE
        if frm.startswith('enum:'):
            frm = 'int'
        if to.startswith('enum:'):
            to = 'int'
        if frm == to:
            return v, FALSE
        if to == 'double':
            if frm == 'bool':
                v, frm = z3.If(v, bv(1), bv(0)), 'int'
            return (z3.fpSignedToFP(RNE, v, F64) if frm == 'int' else z3.fpUnsignedToFP(RNE, v, F64)), FALSE
        if frm == 'double':
            if to == 'bool':
                return z3.Not(z3.fpIsZero(v)), FALSE
            lo, hi = (-2147483649.0, 2147483648.0) if to == 'int' else (-1.0, 4294967296.0)
            ok = z3.And(z3.fpGT(v, z3.FPVal(lo, F64)), z3.fpLT(v, z3.FPVal(hi, F64)))
            conv = z3.fpToSBV(RTZ, v, BV32) if to == 'int' else z3.fpToUBV(RTZ, v, BV32)
            return conv, z3.Not(ok)
        if frm == 'bool':
            return z3.If(v, bv(1), bv(0)), FALSE
        if to == 'bool':
            return v != bv(0), FALSE
        return v, FALSE   # int <-> uint: modular

    # --- library functions (uninterpreted on both sides) --------------------------------------------
    TR_CONTEXT = 'Doc'      # documented: the translation context of qsTr() is the type name of the document

    def tr(self, s, ctx=None):
        ctx = z3.StringVal(self.TR_CONTEXT) if ctx is None else ctx
        if self.concrete_lib:
            return z3.Concat(z3.StringVal('tr('), ctx, z3.StringVal(':'), s, z3.StringVal(')'))
        return self.uf('tr', STR, STR, STR)(ctx, s)

    def arg(self, s, x, xty):
        if self.concrete_lib:
            if xty not in ('int', 'uint'):
                raise NotImplementedError('no concrete model of arg(' + xty + ')')
            return z3.Concat(s, z3.StringVal('%'), z3.IntToStr(z3.BV2Int(x, False)))
        tag = {'int': 'i', 'uint': 'u', 'double': 'd', 'QString': 's', 'bool': 'b'}.get(xty, 'x')
        return self.uf('arg_' + tag, STR, sort_of(xty), STR)(s, x)

    def call_ret(self, meth, recv, args, ret_ty, seqno):
        """result of a value-returning slot: uninterpreted in receiver and arguments"""
        if self.concrete_lib:
            if meth != 'twice':
                raise NotImplementedError('no concrete model of ' + meth)
            return args[0] + args[0]
        f = self.uf(f'ret_{meth}', INT, *[a.sort() for a in args], sort_of(ret_ty))
        return f(recv, *args)
