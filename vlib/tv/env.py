"""Type environment of the corpus: class descriptions read from the same metatypes JSON files that are
handed to the real CLI via --foreign-types."""
import json, os
from .. import common as C

DATA = os.path.join(C.VERIF, 'data')
VNODE_META = os.path.join(DATA, 'vnode_metatypes.json')

# enum values are not part of metatypes JSON; the mock header is generated from this table
ENUMS = {'Mode': [('ModeA', 0), ('ModeB', 1), ('ModeC', 2), ('ModeD', 4)]}


def norm_type(t):
    t = t.strip()
    t = t.replace('const ', '').replace('&', '').strip()
    if t.endswith('*'):
        return 'ptr:' + t[:-1].strip()
    return {'qreal': 'double', 'unsigned int': 'uint'}.get(t, t)


class PropDesc:
    def __init__(self, d, cls, enums):
        self.name = d['name']
        ty = norm_type(d['type'])
        if ty in enums:
            ty = 'enum:' + ty
        self.ty = ty
        self.read = d.get('read')
        self.write = d.get('write')
        self.notify = d.get('notify')
        self.constant = bool(d.get('constant'))
        self.cls = cls


class MethodDesc:
    def __init__(self, d, kind):
        self.name = d['name']
        self.kind = kind
        self.args = [norm_type(a['type']) for a in d.get('arguments', [])]
        self.ret = norm_type(d.get('returnType', 'void'))


class ClassDesc:
    def __init__(self, d, registry):
        self.name = d['className']
        self.supers = [s['name'] for s in d.get('superClasses', []) if s.get('access', 'public') == 'public']
        self.registry = registry
        self.enums = {e['name']: e['values'] for e in d.get('enums', [])}
        self.props = {p['name']: PropDesc(p, self.name, self.enums) for p in d.get('properties', [])}
        self.signals = [MethodDesc(m, 'signal') for m in d.get('signals', [])]
        self.slots = [MethodDesc(m, 'slot') for m in d.get('slots', []) if m.get('access', 'public') == 'public']
        self.methods = [MethodDesc(m, 'method') for m in d.get('methods', []) if m.get('access', 'public') == 'public']

    def bases(self):
        out, todo = [], list(self.supers)
        while todo:
            n = todo.pop(0)
            if n in out or n not in self.registry:
                continue
            out.append(n)
            todo += self.registry[n].supers
        return out

    def derives_from(self, other):
        return other == self.name or other in self.bases() or (other in ('QObject', 'QWidget') and self.name == 'VNode')

    def prop(self, name):
        if name in self.props:
            return self.props[name]
        for b in self.bases():
            if name in self.registry[b].props:
                return self.registry[b].props[name]
        return None

    def all_props(self):
        out = dict(self.props)
        for b in self.bases():
            for k, v in self.registry[b].props.items():
                out.setdefault(k, v)
        return out

    def signals_named(self, name):
        out = [s for s in self.signals if s.name == name]
        for b in self.bases():
            out += [s for s in self.registry[b].signals if s.name == name]
        return out

    def notify_signal_of(self, prop):
        """documented rule: the overload carrying the most arguments among default-argument variants"""
        p = self.prop(prop)
        if p is None or not p.notify:
            return None
        # documented rule: among the overloads whose first argument has the property's type (or that take no
        # argument), the one carrying the most arguments (default-argument variants are separate entries)
        cands = [s for s in self.signals_named(p.notify) if not s.args or s.args[0] == p.ty]
        if not cands:
            return None
        return max(cands, key=lambda s: len(s.args))

    def prop_of_signal(self, signame):
        return [p.name for p in self.all_props().values() if p.notify == signame]

    def callables_named(self, name):
        out = [m for m in self.slots + self.methods + self.signals if m.name == name]
        for b in self.bases():
            c = self.registry[b]
            out += [m for m in c.slots + c.methods + c.signals if m.name == name]
        return out


def load_classes(paths):
    reg = {}
    for p in paths:
        files = [os.path.join(p, f) for f in sorted(os.listdir(p)) if f.endswith('.json')] if os.path.isdir(p) else [p]
        for f in files:
            with open(f) as fh:
                data = json.load(fh)
            for unit in data:
                for c in unit.get('classes', []):
                    if c.get('object') or c.get('gadget'):
                        reg[c['className']] = ClassDesc(c, reg)
    return reg


_vnode = None


def vnode_classes():
    """the private test class (VNode : QWidget) only -- enough for the VNode corpus"""
    global _vnode
    if _vnode is None:
        _vnode = load_classes([VNODE_META])
    return _vnode
