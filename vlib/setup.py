"""./check --setup: warm the build caches (native CLI, Kani overlays).  Optional: every check rebuilds what it
needs from /repo's working tree; this only moves the one-off dependency builds out of the first check."""
import concurrent.futures as cf
from . import common as C, kani


def main():
    try:
        C.build_native()
        C.log('native build ok')
    except C.Inconclusive as e:
        C.log(str(e))
    from .props import c03, c05, c12, c19, ceval_specs
    jobs = [('c03', c03.FRAGS), ('c05', ceval_specs.FRAG), ('c12', c12.FRAGS), ('c19', c19.FRAGS), ('c01', ceval_specs.FRAG)]
    def one(j):
        name, frags = j
        with C.Lock('kani-' + name):
            ws = kani.prepare_overlay(name, frags)
            try:
                s = kani.build(ws)
                return f'kani overlay {name}: built in {s:.0f}s'
            except C.Inconclusive as e:
                return f'kani overlay {name}: {e}'
    with cf.ThreadPoolExecutor(3) as ex:
        for r in ex.map(one, jobs):
            C.log(r)
    return 0
