"""Engine C: rustc MIR -> SMT.  The MIR of /repo/lib (nightly, -Zunpretty=mir) is regenerated from the current
working tree; loop-free functions/closures are interpreted symbolically: integer/boolean locals become z3 terms,
tuples/Options/enums are tracked structurally, every call becomes an uninterpreted result named after its callee,
`switchInt` forks the path.  The obligations are then z3 queries over the recorded paths and call arguments."""
import os, re, shutil
import z3
from . import common as C


class MirError(Exception):
    pass


def dump_mir():
    """-> MIR text of qmluic (lib), cached by the hash of the current tree"""
    h = C.tree_hash(('lib/src', 'lib/Cargo.toml', 'Cargo.lock'))
    base = os.path.join(C.CACHE, 'mir')
    out = os.path.join(base, f'mir-{h}.txt')
    with C.Lock('mir'):
        if os.path.exists(out) and os.path.getsize(out) > 1000:
            return open(out).read()
        ws = os.path.join(base, 'ws')
        lib = os.path.join(ws, 'lib')
        os.makedirs(ws, exist_ok=True)
        rc, o, e, s = C.run(['rsync', '-a', '--delete', '--exclude', 'target', os.path.join(C.REPO, 'lib') + '/', lib + '/'])
        if rc != 0:
            raise C.Inconclusive('rsync failed: ' + e)
        shutil.copy(os.path.join(C.REPO, 'Cargo.lock'), os.path.join(lib, 'Cargo.lock'))
        with open(os.path.join(lib, 'Cargo.toml'), 'a') as f:
            f.write('\n[workspace]\n')
        # make sure rustc really runs (an up-to-date crate would print nothing)
        os.utime(os.path.join(lib, 'src', 'lib.rs'))
        rc, o, e, s = C.run(['cargo', '+nightly', 'rustc', '--offline', '--lib', '--target-dir', os.path.join(ws, 'target'), '--',
                             '-Zunpretty=mir', '-C', 'debug-assertions=off', '-C', 'overflow-checks=on'], cwd=lib, timeout=1500)
        if rc != 0 or len(o) < 1000:
            raise C.Inconclusive('MIR dump failed:\n' + e[-2000:])
        for f in os.listdir(base):
            if f.startswith('mir-') and f.endswith('.txt'):
                os.remove(os.path.join(base, f))
        with open(out, 'w') as f:
            f.write(o)
        return o


def dump_mir_bin():
    """-> MIR text of the command-line crate (src/main.rs ...), cached by the hash of the current tree"""
    h = C.tree_hash(('src', 'lib/src', 'lib/Cargo.toml', 'Cargo.toml', 'Cargo.lock'))
    base = os.path.join(C.CACHE, 'mir')
    out = os.path.join(base, f'mirbin-{h}.txt')
    with C.Lock('mirbin'):
        if os.path.exists(out) and os.path.getsize(out) > 1000:
            return open(out).read()
        ws = os.path.join(base, 'wsbin')
        repo = os.path.join(ws, 'repo')
        os.makedirs(ws, exist_ok=True)
        rc, o, e, s = C.run(['rsync', '-a', '--delete', '--exclude', 'target', '--exclude', '.git', C.REPO + '/', repo + '/'])
        if rc != 0:
            raise C.Inconclusive('rsync failed: ' + e)
        os.utime(os.path.join(repo, 'src', 'main.rs'))
        rc, o, e, s = C.run(['cargo', '+nightly', 'rustc', '--offline', '--bin', 'qmluic', '--target-dir', os.path.join(ws, 'target'), '--',
                             '-Zunpretty=mir', '-C', 'debug-assertions=off', '-C', 'overflow-checks=on'], cwd=repo, timeout=1500)
        if rc != 0 or len(o) < 1000:
            raise C.Inconclusive('MIR dump of the bin crate failed:\n' + e[-2000:])
        for f in os.listdir(base):
            if f.startswith('mirbin-') and f.endswith('.txt'):
                os.remove(os.path.join(base, f))
        with open(out, 'w') as f:
            f.write(o)
        return o


# ----------------------------------------------------------------------------- parsing
class Fn:
    def __init__(self, header, name, params, body):
        self.header, self.name, self.params = header, name, params
        self.param_types = {}
        for prm in split_top(params):
            if ':' in prm:
                n, t = prm.split(':', 1)
                self.param_types[n.strip()] = t.strip()
        self.debug = {}          # source name -> place text
        self.blocks = {}         # bb -> [lines]
        self.cleanup = set()
        for m in re.finditer(r'^\s+debug (\w+) => (.*);$', body, re.M):
            self.debug.setdefault(m.group(1), m.group(2).strip())
        for m in re.finditer(r'^    (bb\d+)( \(cleanup\))?: \{\n(.*?)^    \}', body, re.S | re.M):
            self.blocks[m.group(1)] = [l.strip() for l in m.group(3).strip().split('\n')]
            if m.group(2):
                self.cleanup.add(m.group(1))


def parse_functions(text):
    fns = {}
    for m in re.finditer(r'^fn (.+?)\((.*?)\) -> (.+?) \{\n(.*?)^\}\n', text, re.S | re.M):
        name = m.group(1)
        fns.setdefault(name, Fn(m.group(0).split('\n')[0], name, m.group(2), m.group(4)))
    return fns


def find_fn(fns, pattern):
    hits = [f for n, f in fns.items() if re.search(pattern, n)]
    if len(hits) != 1:
        raise MirError(f'{len(hits)} MIR functions match /{pattern}/')
    return hits[0]


def parse_consts(text):
    """`const NAME: ty = const 65535_i32;` -> {NAME: int}"""
    out = {}
    for m in re.finditer(r'^const (\w+): \w+ = const (-?\d+)_\w+;$', text, re.M):
        out[m.group(1)] = int(m.group(2))
    return out


# ----------------------------------------------------------------------------- values
class Opaque:
    """unknown value identified by how it was obtained; projections give derived unknowns"""
    def __init__(self, name, ty=''):
        self.name = name
        self.ty = ty

    def __repr__(self):
        return f'<{self.name}>'


class Tup:
    def __init__(self, items):
        self.items = list(items)

    def __repr__(self):
        return 'Tup' + repr(self.items)


class Adt:
    def __init__(self, path, fields, names=None):
        self.path, self.fields, self.names = path, list(fields), names

    def field(self, name):
        return self.fields[self.names.index(name)]

    def __repr__(self):
        return f'{self.path}{self.fields}'


class Ref:
    def __init__(self, target):
        self.target = target

    def __repr__(self):
        return f'&{self.target!r}'


class Fork:
    """several outcomes of a modelled / inlined call: [(extra path conditions, heap or None, value)]"""
    def __init__(self, outcomes):
        self.outcomes = list(outcomes)


class Call:
    """result of a call left uninterpreted"""
    def __init__(self, callee, args, seq):
        self.callee, self.args, self.seq = callee, args, seq
        self.name = f'{callee.split("::")[-1]}#{seq}'

    def __repr__(self):
        return f'<call {self.callee}#{self.seq}>'


INT_TYPES = ('i8', 'i16', 'i32', 'i64', 'isize', 'u8', 'u16', 'u32', 'u64', 'usize', 'i128', 'u128', 'char')


def split_top(s, sep=','):
    out, depth, cur = [], 0, ''
    i = 0
    instr = False
    while i < len(s):
        c = s[i]
        if instr:
            cur += c
            if c == '\\':
                cur += s[i + 1]
                i += 1
            elif c == '"':
                instr = False
        elif c == '"':
            instr = True
            cur += c
        elif c in '([{<':
            depth += 1
            cur += c
        elif c in ')]}>':
            if c == '>' and i > 0 and s[i - 1] in '-=':
                cur += c          # -> / =>
            else:
                depth -= 1
                cur += c
        elif c == sep and depth == 0:
            out.append(cur.strip())
            cur = ''
        else:
            cur += c
        i += 1
    if cur.strip():
        out.append(cur.strip())
    return out


def split_callee(call):
    """index of the '(' that opens the argument list: the first one outside <...>"""
    depth = 0
    for i, c in enumerate(call):
        if c == '<':
            depth += 1
        elif c == '>' and not (i > 0 and call[i - 1] in '-='):
            depth -= 1
        elif c == '(' and depth == 0:
            return i
    return None


def strip_generics(name):
    out, depth = '', 0
    i = 0
    while i < len(name):
        if name.startswith('::<', i):
            depth += 1
            i += 3
            continue
        c = name[i]
        if depth > 0:
            if c == '<':
                depth += 1
            elif c == '>' and name[i - 1] not in '-=':
                depth -= 1
            i += 1
            continue
        out += c
        i += 1
    return out


VARIANT_INDEX = {'None': 0, 'Some': 1, 'Ok': 0, 'Err': 1}
ENUM_TYPES = {'Option', 'Result', 'ControlFlow', 'SerializableValue'}     # enums whose constructed values have known discriminants


class Path:
    def __init__(self):
        self.pc = []          # z3 Bool conditions
        self.env = {}         # local -> value
        self.calls = []       # Call objects in order
        self.ret = None
        self.end = None       # 'return' | 'unreachable' | 'panic'
        self.trace = []

    def fork(self):
        p = Path()
        p.pc, p.env, p.calls, p.trace = list(self.pc), dict(self.env), list(self.calls), list(self.trace)
        p.heap = dict(getattr(self, 'heap', {}))
        return p


class Interp:
    def __init__(self, fn, consts=None, arg_values=None, call_model=None):
        self.fn = fn
        self.consts = consts or {}
        self.memo = {}
        self.seq = 0
        self.arg_values = arg_values or {}
        self.call_model = call_model       # optional: (call, interp[, path]) -> value or None
        self.store_model = None            # optional: (place text, value, interp, path)
        self.stop_at = ()                  # callee suffixes at which a path is cut (end = 'stop')
        self.paths = []

    # ---- symbolic leaves -------------------------------------------------------------------------
    def leaf(self, name, ty):
        ty = ty.strip()
        key = (name, ty)
        if key not in self.memo:
            if ty in INT_TYPES:
                self.memo[key] = z3.Int(name)
            elif ty == 'bool':
                self.memo[key] = z3.Bool(name)
            elif ty == 'f64':
                self.memo[key] = z3.FP(name, z3.Float64())
            else:
                self.memo[key] = Opaque(name, ty)
        return self.memo[key]

    def name_of(self, v):
        if isinstance(v, (Opaque, Call)):
            return v.name
        if isinstance(v, Ref):
            return self.name_of(v.target)
        return None

    # ---- places ----------------------------------------------------------------------------------
    def place(self, text, p):
        """evaluates a place expression -> value"""
        t = text.strip()
        m = re.fullmatch(r'_(\d+)', t)
        if m:
            if t in p.env:
                return p.env[t]
            if t in self.arg_values:
                return self.arg_values[t]
            return self.leaf(t, self.fn.param_types.get(t, 'opaque'))
        if t.startswith('(*') and t.endswith(')'):
            inner = self.place(t[2:-1], p)
            if isinstance(inner, Ref):
                return inner.target
            n = self.name_of(inner)
            if n is None:
                return inner
            ity = getattr(inner, 'ty', '')
            m2 = re.fullmatch(r"&(?:'\w+ )?(?:mut )?(.*)", ity)
            return self.leaf(n + '.*', m2.group(1) if m2 else 'opaque')
        # (BASE.k: TYPE)
        m = re.fullmatch(r'\((.*)\.(\d+): (.*)\)', t)
        if m and self._balanced(m.group(1)):
            base, k, ty = m.group(1), int(m.group(2)), m.group(3)
            b = self.place(base, p)
            if isinstance(b, Tup):
                return b.items[k]
            if isinstance(b, Adt):
                return b.fields[k]
            n = self.name_of(b)
            if n is None:
                raise MirError(f'projection .{k} of {b!r} in {t}')
            return self.leaf(f'{n}.{k}', ty)
        # (BASE as Variant)
        m = re.fullmatch(r'\((.*) as (\w+)\)', t)
        if m and self._balanced(m.group(1)):
            b = self.place(m.group(1), p)
            if isinstance(b, Adt):
                return b
            n = self.name_of(b)
            return self.leaf(f'{n}@{m.group(2)}', 'opaque')
        raise MirError('place: ' + t)

    @staticmethod
    def _balanced(s):
        d = 0
        for c in s:
            if c == '(':
                d += 1
            elif c == ')':
                d -= 1
                if d < 0:
                    return False
        return d == 0

    # ---- operands / rvalues ------------------------------------------------------------------------
    def operand(self, text, p):
        t = text.strip()
        t = re.sub(r'^(no_retag )?(copy|move) ', '', t)
        if t.startswith('const '):
            return self.constant(t[6:].strip())
        if '::' in t and (re.fullmatch(r'[A-Za-z_][\w:<>, ]*', t) or re.fullmatch(r'<.* as .*>::\w+', t)):
            return Opaque('item ' + t)          # function item / constructor passed as a value
        if re.fullmatch(r'[A-Za-z]\w*(::<.*>)?', t) and not re.fullmatch(r'_\d+', t):
            return Opaque('item ' + t)          # bare function item (e.g. `normalize_path` handed to map())
        return self.place(t, p)

    def constant(self, c):
        m = re.fullmatch(r'(-?\d+)_(\w+)', c)
        if m:
            return z3.IntVal(int(m.group(1)))
        if c in ('true', 'false'):
            return z3.BoolVal(c == 'true')
        m = re.fullmatch(r'"(.*)"', c, re.S)
        if m:
            return ('str', m.group(1))
        m = re.fullmatch(r"'(.*)'", c)
        if m:
            ch = m.group(1)
            if len(ch) == 1:
                return z3.IntVal(ord(ch))        # chars are their code points
            return ('char', ch)
        m = re.fullmatch(r'(-?[\d.]+(?:e-?\d+)?)f64', c.replace('_', ''))
        if m:
            return z3.FPVal(float(m.group(1)), z3.Float64())
        m = re.fullmatch(r'([ui])(8|16|32|64)::(MAX|MIN)', c)
        if m:
            bits, signed = int(m.group(2)), m.group(1) == 'i'
            hi = (1 << (bits - 1)) - 1 if signed else (1 << bits) - 1
            lo = -(1 << (bits - 1)) if signed else 0
            return z3.IntVal(hi if m.group(3) == 'MAX' else lo)
        last = c.split('::')[-1]
        if last in self.consts:
            return z3.IntVal(self.consts[last])
        return Opaque('const ' + c)

    def rvalue(self, text, p):
        t = text.strip()
        m = re.fullmatch(r'(Lt|Gt|Le|Ge|Eq|Ne|Add|Sub|Mul|Div|Rem|BitAnd|BitOr|BitXor|AddWithOverflow|SubWithOverflow|MulWithOverflow|AddUnchecked|SubUnchecked)\((.*)\)', t)
        if m:
            a, b = [self.operand(x, p) for x in split_top(m.group(2))]
            op = m.group(1)
            if z3.is_fp(a) or z3.is_fp(b):
                f = {'Add': z3.fpAdd, 'Sub': z3.fpSub, 'Mul': z3.fpMul, 'Div': z3.fpDiv}.get(op)
                if f:
                    return f(z3.RNE(), a, b)
                if op == 'Rem':
                    return z3.fpRem(a, b)       # NB: IEEE remainder differs from C fmod; only operand order is checked
                cmp = {'Lt': z3.fpLT, 'Gt': z3.fpGT, 'Le': z3.fpLEQ, 'Ge': z3.fpGEQ, 'Eq': z3.fpEQ}.get(op)
                if cmp:
                    return cmp(a, b)
                if op == 'Ne':
                    return z3.Not(z3.fpEQ(a, b))
            if not (z3.is_expr(a) and z3.is_expr(b)):
                return Adt('op:' + op, [a, b])
            if op in ('Lt', 'Gt', 'Le', 'Ge', 'Eq', 'Ne'):
                return {'Lt': a < b, 'Gt': a > b, 'Le': a <= b, 'Ge': a >= b, 'Eq': a == b, 'Ne': a != b}[op]
            base = op.replace('WithOverflow', '').replace('Unchecked', '')
            if base in ('Add', 'Sub', 'Mul'):
                v = {'Add': a + b, 'Sub': a - b, 'Mul': a * b}[base]
            elif base == 'Div':
                v = a / b
            elif base == 'Rem':
                v = a % b
            else:
                return Adt('op:' + op, [a, b])
            if op.endswith('WithOverflow'):
                return Tup([v, z3.Bool(f'ovf#{self._next()}')])     # overflow flag: free (the assert path is cut)
            return v
        m = re.fullmatch(r'Not\((.*)\)', t)
        if m:
            v = self.operand(m.group(1), p)
            return z3.Not(v) if z3.is_bool(v) else Adt('op:Not', [v])
        m = re.fullmatch(r'Neg\((.*)\)', t)
        if m:
            v = self.operand(m.group(1), p)
            return z3.fpNeg(v) if z3.is_fp(v) else -v
        m = re.fullmatch(r'discriminant\((.*)\)', t)
        if m:
            v = self.place(m.group(1), p)
            if isinstance(v, Adt) and v.path.startswith('variant:'):
                return ('disc-of-adt', v)
            if isinstance(v, Adt) and v.path.split('::')[-1] in VARIANT_INDEX and any(t in v.path for t in ENUM_TYPES):
                return z3.IntVal(VARIANT_INDEX[v.path.split('::')[-1]])     # constructed Option / Result value
            n = self.name_of(v)
            if n is None:
                raise MirError('discriminant of ' + repr(v))
            return self.leaf(n + '.discr', 'isize')
        m = re.fullmatch(r'&(?:mut |raw const |raw mut )?(.*)', t)
        if m:
            return Ref(self.place(m.group(1), p))
        m = re.fullmatch(r'(.*) as (&.*) \(PointerCoercion\(Unsize, \w+\)\)', t)
        if m:
            return self.operand(m.group(1), p)      # &[T; N] -> &[T]: the same value
        m = re.fullmatch(r'(.*) as (\w+) \((\w+)\)', t)
        if m:
            v = self.operand(m.group(1), p)
            if m.group(3) in ('IntToInt',):
                return v           # value-preserving for the ranges in question (stated in evidence)
            return Adt('cast:' + m.group(3), [v])
        if t.startswith('(') and t.endswith(')') and not re.match(r'\((\*|.*: )', t) or t == '()':
            inner = t[1:-1]
            if inner.endswith(','):
                inner = inner[:-1]
            return Tup([self.operand(x, p) for x in split_top(inner)] if inner.strip() else [])
        if t.startswith('[') and t.endswith(']'):
            return Tup([self.operand(x, p) for x in split_top(t[1:-1])])
        if re.match(r'(copy|move|const|no_retag) ', t):
            return self.operand(t, p)
        # ADT constructors:  Path::Variant(args) | Path::Variant | Path { f: v, .. }
        if '::<' in t and '(' in t and not t.startswith('{'):
            t = strip_generics(t)          # tuple types inside the generic arguments would be read as the argument list
        m = re.fullmatch(r'([\w:<>, &\'\[\]]+?)\((.*)\)', t)
        if m and '::' in m.group(1):
            return Adt(strip_generics(m.group(1)), [self.operand(x, p) for x in split_top(m.group(2))])
        m = re.fullmatch(r'(\{closure@[^}]*\}) \{(.*)\}', t) or re.fullmatch(r'([\w:<>, &\']+?) \{(.*)\}', t)
        if m:
            fields = [x.split(':', 1) for x in split_top(m.group(2))]
            return Adt(strip_generics(m.group(1)), [self.operand(v, p) for _, v in fields], [n.strip() for n, _ in fields])
        if re.fullmatch(r'[\w:<>, &\']+', t) and '::' in t:
            return Adt(strip_generics(t), [])
        if re.fullmatch(r'[A-Z]\w*', t):
            return Adt(t, [])                   # unit variant printed without its path (e.g. `Generate`)
        return self.place(t, p)

    def _next(self):
        self.seq += 1
        return self.seq

    # ---- execution ---------------------------------------------------------------------------------
    def run(self, max_paths=256, path=None):
        p0 = path or Path()
        self._run('bb0', p0, 0, max_paths)
        return self.paths

    def _run(self, bb, p, depth, max_paths):
        if depth > getattr(self, 'max_depth', 500) or len(self.paths) > max_paths:
            raise MirError('function is not loop-free or has too many paths')
        if bb in self.fn.cleanup:
            p.end = 'unwind'
            self.paths.append(p)
            return
        for line in self.fn.blocks[bb]:
            p.trace.append(f'{bb}: {line}')
            if line in ('return;',):
                p.ret = p.env.get('_0')
                p.end = 'return'
                self.paths.append(p)
                return
            if line == 'unreachable;':
                p.end = 'unreachable'
                self.paths.append(p)
                return
            if line.startswith('resume') or line.startswith('abort'):
                p.end = 'unwind'
                self.paths.append(p)
                return
            m = re.fullmatch(r'goto -> (bb\d+);', line)
            if m:
                return self._run(m.group(1), p, depth + 1, max_paths)
            m = re.fullmatch(r'switchInt\((.*)\) -> \[(.*)\];', line)
            if m:
                v = self.operand(m.group(1), p)
                arms = []
                for a in split_top(m.group(2)):
                    k, tgt = a.split(':')
                    arms.append((k.strip(), tgt.strip()))
                if isinstance(v, tuple) and v[0] == 'disc-of-adt':
                    raise MirError('switch on constructed ADT not needed here')
                if not z3.is_expr(v):
                    n = self.name_of(v)
                    if n is None:
                        raise MirError('switchInt on ' + repr(v))
                    v = self.leaf(n + '.int', 'isize')       # result of an uninterpreted call used as a condition
                taken = []
                for k, tgt in arms:
                    if k == 'otherwise':
                        cond = z3.And([z3.Not(c) for c in taken]) if taken else z3.BoolVal(True)
                    else:
                        kv = int(k)
                        cond = (v == z3.BoolVal(bool(kv))) if z3.is_bool(v) else (v == kv)
                        taken.append(cond)
                    q = p.fork()
                    q.pc.append(z3.simplify(cond))
                    if z3.is_false(q.pc[-1]):
                        continue
                    if not z3.is_true(q.pc[-1]):
                        sv = z3.Solver()
                        sv.set('timeout', 2000)
                        sv.add(*q.pc)
                        if sv.check() == z3.unsat:
                            continue
                    self._run(tgt, q, depth + 1, max_paths)
                return
            m = re.fullmatch(r'assert\((.*?), ".*?\) -> \[success: (bb\d+), unwind.*\];', line)
            if m:
                # the failing side panics (overflow check); only the success path is followed
                return self._run(m.group(2), p, depth + 1, max_paths)
            m = re.fullmatch(r'drop\((.*)\) -> \[return: (bb\d+), unwind.*\];', line)
            if m:
                return self._run(m.group(2), p, depth + 1, max_paths)
            m = re.fullmatch(r'(\S.*?) = (.*) -> \[return: (bb\d+), unwind.*\];', line)
            if m and re.match(r'_\d+$|\(\*_\d+\)$', m.group(1)):
                dst, call, nxt = m.groups()
                raw_call = call
                call = strip_generics(call)
                k = split_callee(call)
                if k is None or not call.endswith(')'):
                    raise MirError('call: ' + line)
                callee = call[:k].strip()
                args = [self.operand(a, p) for a in split_top(call[k + 1:-1])]
                c = Call(callee, args, self._next())
                c.raw = raw_call
                if any(callee.endswith(x) for x in self.stop_at):
                    p.calls.append(c)
                    p.end = 'stop'
                    self.paths.append(p)
                    return
                val = self.call_model(c, self, p) if self.call_model and self.call_model.__code__.co_argcount >= 3 else (self.call_model(c, self) if self.call_model else None)
                if isinstance(val, Fork):
                    for pcs, heap, v in val.outcomes:
                        q = p.fork()
                        q.pc += [x for x in pcs if not z3.is_true(x)]
                        if heap is not None:
                            q.heap = heap
                        if any(z3.is_false(z3.simplify(x)) for x in pcs):
                            continue
                        if pcs and not all(z3.is_true(x) for x in pcs):
                            sv = z3.Solver()
                            sv.set('timeout', 5000)
                            sv.add(*q.pc)
                            if sv.check() == z3.unsat:
                                continue
                        q.calls.append(c)
                        q.env[dst] = v
                        self._run(nxt, q, depth + 1, max_paths)
                    return
                p.calls.append(c)
                p.env[dst] = c if val is None else val
                c.result = p.env[dst]
                return self._run(nxt, p, depth + 1, max_paths)
            m = re.fullmatch(r'(.*?) = (.*?) -> unwind.*;', line)
            if m:
                # diverging call
                p.end = 'diverge'
                self.paths.append(p)
                return
            m = re.fullmatch(r'(_\d+) = (.*);', line)
            if m:
                p.env[m.group(1)] = self.rvalue(m.group(2), p)
                continue
            m = re.fullmatch(r'(\(.*\)) = (.*);', line)
            if m:
                # store through a pointer/projection: delegated to the obligation's heap model, if any
                if self.store_model is not None:
                    self.store_model(m.group(1), self.rvalue(m.group(2), p), self, p)
                continue
            if line.startswith(('StorageLive', 'StorageDead', 'nop', 'FakeRead', 'PlaceMention', 'Retag', 'AscribeUserType', 'Coverage', 'ConstEvalCounter', 'Deinit', 'set_discriminant')) \
                    or line.startswith('//') or line.startswith('_') and ' = ' not in line:
                continue
            raise MirError('statement: ' + line)
        raise MirError('block without terminator: ' + bb)


def check(query, timeout_ms=20000):
    """-> 'unsat' | ('sat', model) | 'unknown'"""
    s = z3.Solver()
    s.set('timeout', timeout_ms)
    s.add(*query)
    r = s.check()
    if r == z3.unsat:
        return 'unsat'
    if r == z3.sat:
        return ('sat', s.model())
    return 'unknown'
