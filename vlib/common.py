"""Shared plumbing of the /verif checks: paths, builds from /repo's working tree,
evidence, known findings, result/exit-code protocol.

Exit protocol (DESIGN 2.1): 0 = held on everything explored; 1 = replayed violation
(prints `VIOLATION property=<id> replay=<path>`); 2 = inconclusive.
"""
import fcntl, hashlib, json, os, shutil, subprocess, sys, time

VERIF = os.path.dirname(os.path.dirname(os.path.abspath(__file__)))
REPO = os.environ.get('VERIF_REPO', '/repo')
CACHE = os.environ.get('VERIF_CACHE', '/var/tmp/qmluic-verif')
EVIDENCE = os.path.join(VERIF, 'evidence')
REPLAYS = os.path.join(VERIF, "replays")
KNOWN_FINDINGS = os.path.join(VERIF, 'known_findings.json')
NCPU = os.cpu_count() or 4

ENV = dict(os.environ, CARGO_NET_OFFLINE='true', CARGO_TERM_COLOR='never', NO_COLOR='1')
ENV.pop('RUSTFLAGS', None)


def tier():
    return os.environ.get('VERIF_TIER', 'quick')


def seed():
    try:
        return int(os.environ.get('VERIF_SEED', '1'))
    except ValueError:
        return 1


def log(*a):
    print(*a, file=sys.stderr, flush=True)


def run(cmd, cwd=None, timeout=None, env=None, stdin=None, mem_gb=None):
    """Runs cmd, returns (rc, stdout, stderr, seconds). rc = -9 on timeout."""
    t0 = time.time()
    pre = None
    if mem_gb:
        import resource
        lim = int(mem_gb * (1 << 30))
        def pre():
            resource.setrlimit(resource.RLIMIT_AS, (lim, lim))
            os.setsid()
    else:
        pre = os.setsid
    try:
        p = subprocess.Popen(cmd, cwd=cwd, env=env or ENV, stdin=subprocess.PIPE if stdin is not None else subprocess.DEVNULL,
                             stdout=subprocess.PIPE, stderr=subprocess.PIPE, text=True, preexec_fn=pre)
        try:
            out, err = p.communicate(stdin, timeout=timeout)
            return p.returncode, out, err, time.time() - t0
        except subprocess.TimeoutExpired:
            try:
                os.killpg(p.pid, 9)
            except ProcessLookupError:
                pass
            out, err = p.communicate()
            return -9, out, err, time.time() - t0
    except FileNotFoundError as e:
        return 127, '', str(e), time.time() - t0


class Lock:
    """flock on a file under CACHE so that concurrently started checks do not race on shared builds."""
    def __init__(self, name):
        os.makedirs(CACHE, exist_ok=True)
        self.path = os.path.join(CACHE, name + '.lock')
    def __enter__(self):
        self.f = open(self.path, 'w')
        fcntl.flock(self.f, fcntl.LOCK_EX)
        return self
    def __exit__(self, *a):
        fcntl.flock(self.f, fcntl.LOCK_UN)
        self.f.close()


def tree_hash(paths=('lib/src', 'src', 'Cargo.toml', 'Cargo.lock', 'lib/Cargo.toml')):
    h = hashlib.sha256()
    for p in paths:
        full = os.path.join(REPO, p)
        if os.path.isdir(full):
            for d, dn, fn in sorted(os.walk(full)):
                dn.sort()
                for f in sorted(fn):
                    fp = os.path.join(d, f)
                    h.update(fp.encode())
                    with open(fp, 'rb') as fh:
                        h.update(fh.read())
        elif os.path.exists(full):
            h.update(full.encode())
            with open(full, 'rb') as fh:
                h.update(fh.read())
    return h.hexdigest()[:16]


class Inconclusive(Exception):
    pass


def build_native():
    """cargo build of the real CLI from /repo's working tree into CACHE (never writes into /repo).
    Returns path of the qmluic binary."""
    tgt = os.path.join(CACHE, 'native')
    with Lock('native'):
        rc, out, err, s = run(['cargo', 'build', '--offline', '--manifest-path', os.path.join(REPO, 'Cargo.toml'),
                               '--target-dir', tgt, '--bin', 'qmluic'], timeout=1200)
        if rc != 0:
            raise Inconclusive('native build of /repo failed:\n' + err[-3000:])
        # hand out a private copy keyed by the tree: a concurrent check that rebuilds after an edit of /repo
        # must not pull the binary away from under a running one
        bindir = os.path.join(CACHE, 'bin')
        os.makedirs(bindir, exist_ok=True)
        dst = os.path.join(bindir, 'qmluic-' + tree_hash())
        if not os.path.exists(dst):
            tmp = dst + '.tmp%d' % os.getpid()
            shutil.copy2(os.path.join(tgt, 'debug', 'qmluic'), tmp)
            os.replace(tmp, dst)
            old = sorted((os.path.getmtime(os.path.join(bindir, f)), f) for f in os.listdir(bindir))
            for _, f in old[:-6]:
                try:
                    os.remove(os.path.join(bindir, f))
                except OSError:
                    pass
    return dst


# ----------------------------------------------------------------------------- findings
def load_known_findings():
    try:
        with open(KNOWN_FINDINGS) as f:
            return json.load(f)
    except FileNotFoundError:
        return {'findings': []}


class Result:
    """Collects what a check did and turns it into evidence + exit code."""
    def __init__(self, prop, level):
        self.prop, self.level = prop, level
        self.t0 = time.time()
        self.coverage = {}
        self.assumptions = []
        self.violations = []       # (key, description, replay_path) -- replayed, genuine
        self.inconclusive = []     # strings
        self.known_hits = []       # (finding id, description)
        self.known = [f for f in load_known_findings().get('findings', []) if f.get('property') == prop and f.get('status') == 'known']

    def violation(self, key, desc, replay_path):
        """key: dict identifying the violation by role (site/shape...). Suppressed only if it matches
        a listed known finding (all fields of the finding's `match` equal)."""
        for f in self.known:
            m = f.get('match', {})
            if m and all(key.get(k) == v for k, v in m.items()):
                if f['id'] not in [k for k, _ in self.known_hits]:
                    self.known_hits.append((f['id'], f.get('what', desc)))
                return False
        self.violations.append((key, desc, replay_path))
        return True

    def inconc(self, msg):
        self.inconclusive.append(msg)
        log('INCONCLUSIVE:', msg)

    def finish(self):
        wall = time.time() - self.t0
        ev = {
            'property_id': self.prop, 'tier': tier(), 'seed': seed(), 'level': self.level,
            'coverage': self.coverage, 'assumptions': self.assumptions, 'wall_s': round(wall, 2),
            'violations': len(self.violations),
        }
        ev['coverage']['inconclusive'] = self.inconclusive[:50]
        ev['coverage']['known_findings_hit'] = [k for k, _ in self.known_hits]
        os.makedirs(EVIDENCE, exist_ok=True)
        tmp = os.path.join(EVIDENCE, self.prop + '.json.tmp')
        with open(tmp, 'w') as f:
            json.dump(ev, f, indent=1, default=str)
            f.write('\n')
        os.replace(tmp, os.path.join(EVIDENCE, self.prop + '.json'))
        for fid, what in self.known_hits:
            print(f'KNOWN-FINDING: property={self.prop} {fid}: {what}')
        for key, desc, path in self.violations:
            print(f'VIOLATION property={self.prop} replay={path}')
            print('  ' + desc.replace('\n', '\n  '))
        sys.stdout.flush()
        if self.violations:
            return 1
        if self.inconclusive:
            print(f'INCONCLUSIVE property={self.prop}: ' + '; '.join(self.inconclusive[:5]))
            return 2
        print(f'OK property={self.prop} tier={tier()} wall={wall:.1f}s')
        return 0


def new_replay_dir(prop, tag):
    d = os.path.join(REPLAYS, prop, tag)
    if os.path.isdir(d):
        shutil.rmtree(d)
    os.makedirs(d)
    return d
