// Mock of the Qt API used by emitted uisupport_*.h headers.  REPLAY ONLY: counterexamples found by the solver are
// executed against the unmodified emitted header compiled with this mock; no verdict depends on it.
#pragma once
#include <algorithm>
#include <cmath>
#include <cstdint>
#include <cstdio>
#include <cstring>
#include <functional>
#include <initializer_list>
#include <iostream>
#include <memory>
#include <sstream>
#include <string>
#include <tuple>
#include <type_traits>
#include <vector>

using uint = unsigned int;
using quint32 = std::uint32_t;
#define Q_UNLIKELY(x) (x)
#define Q_ASSERT_X(c, w, m) do { if (!(c)) { verif::trace() << "ASSERT " << m << "\n"; throw verif::Abort(); } } while (0)
#define Q_UNREACHABLE() do { verif::trace() << "UNREACHABLE\n"; throw verif::Abort(); } while (0)
#define QStringLiteral(s) QString(s)

class QString;
template <typename T> class QList;

namespace verif {
struct Abort {};
inline std::ostringstream &trace() { static std::ostringstream s; return s; }
inline double from_bits(unsigned long long b) { double d; std::memcpy(&d, &b, 8); return d; }
inline std::string hex(const std::string &s) { static const char *d = "0123456789abcdef"; std::string o; for (unsigned char c : s) { o += d[c >> 4]; o += d[c & 15]; } return o; }
inline std::string show(int v) { return "I:" + std::to_string(v); }
inline std::string show(uint v) { return "U:" + std::to_string(v); }
inline std::string show(bool v) { return std::string("B:") + (v ? "true" : "false"); }
inline std::string show(double v) { if (v != v) return "D:nan"; unsigned long long b; std::memcpy(&b, &v, 8); char buf[32]; std::snprintf(buf, sizeof buf, "D:%016llx", b); return buf; }
std::string show(const QString &s);
std::string show(const QList<QString> &l);
}

class QString {
public:
    QString() = default;
    QString(const char *s) : s_(s) {}
    static QString fromHex(const char *h) { QString r; for (size_t i = 0; h[i] && h[i + 1]; i += 2) { auto v = [](char c) { return c <= '9' ? c - '0' : c - 'a' + 10; }; r.s_ += (char)(v(h[i]) * 16 + v(h[i + 1])); } return r; }
    bool isEmpty() const { return s_.empty(); }
    // concrete library model shared with the solver's replay stage: s.arg(n) = s + "%" + decimal(unsigned bits of n)
    QString arg(int n) const { QString r; r.s_ = s_ + "%" + std::to_string((unsigned)n); return r; }
    friend bool operator==(const QString &a, const QString &b) { return a.s_ == b.s_; }
    friend bool operator!=(const QString &a, const QString &b) { return a.s_ != b.s_; }
    friend bool operator<(const QString &a, const QString &b) { return a.s_ < b.s_; }
    friend bool operator<=(const QString &a, const QString &b) { return a.s_ <= b.s_; }
    friend bool operator>(const QString &a, const QString &b) { return a.s_ > b.s_; }
    friend bool operator>=(const QString &a, const QString &b) { return a.s_ >= b.s_; }
    friend QString operator+(const QString &a, const QString &b) { QString r; r.s_ = a.s_ + b.s_; return r; }
    const std::string &std() const { return s_; }
private:
    std::string s_;
};

template <typename T> class QList {
public:
    QList() = default;
    QList(std::initializer_list<T> l) : v_(l) {}
    const T &at(int i) const { if (i < 0 || i >= (int)v_.size()) { verif::trace() << "OOB\n"; throw verif::Abort(); } return v_[i]; }
    bool isEmpty() const { return v_.empty(); }
    friend bool operator==(const QList &a, const QList &b) { return a.v_ == b.v_; }
    std::vector<T> v_;
};
using QStringList = QList<QString>;

inline std::string verif::show(const QString &s) { return "S:" + verif::hex(s.std()); }
inline std::string verif::show(const QList<QString> &l) { std::string o = "L["; for (size_t i = 0; i < l.v_.size(); ++i) { if (i) o += ","; o += show(l.v_[i]); } return o + "]"; }

class QFont {
public:
    QString family() const { return family_; }
    void setFamily(const QString &v) { family_ = v; }
    int pointSize() const { return pointSize_; }
    void setPointSize(int v) { pointSize_ = v; }
    bool bold() const { return bold_; }
    void setBold(bool v) { bold_ = v; }
    friend bool operator==(const QFont &a, const QFont &b) { return a.family_ == b.family_ && a.pointSize_ == b.pointSize_ && a.bold_ == b.bold_; }
private:
    QString family_; int pointSize_ = -1; bool bold_ = false;
};
namespace verif { inline std::string show(const QFont &f) { return "F{" + show(f.family()) + "," + show(f.pointSize()) + "," + show(f.bold()) + "}"; } }

template <typename... A> struct QOverload {
    template <typename C> static constexpr auto of(void (C::*p)(A...)) { return p; }
};

class QObject;
struct ConnData { QObject *sender; std::string key; std::function<void(void **)> call; bool alive = true; };
namespace QMetaObject {
class Connection {
public:
    Connection() = default;
    explicit Connection(std::shared_ptr<ConnData> d) : d_(std::move(d)) {}
    explicit operator bool() const { return d_ && d_->alive; }
    bool operator!() const { return !static_cast<bool>(*this); }
    std::shared_ptr<ConnData> d_;
};
}

class QObject {
public:
    virtual ~QObject() = default;
    template <typename C, typename... SA, typename F>
    static QMetaObject::Connection connect(C *sender, void (C::*sig)(SA...), QObject *, F f) {
        if (!sender) { verif::trace() << "CONNECT-NULL\n"; throw verif::Abort(); }
        auto d = std::make_shared<ConnData>();
        d->sender = sender;
        d->key = keyOf(sig);
        d->call = [f](void **a) mutable { invoke<F, SA...>(f, a, std::index_sequence_for<SA...>{}); };
        sender->conns_.push_back(d);
        return QMetaObject::Connection(d);
    }
    static bool disconnect(const QMetaObject::Connection &c) { if (c.d_) c.d_->alive = false; return true; }
    template <typename C, typename... SA> static std::string keyOf(void (C::*sig)(SA...)) {
        return std::string(reinterpret_cast<const char *>(&sig), sizeof(sig));
    }
    size_t liveConnections() const { size_t n = 0; for (auto &d : conns_) n += d->alive; return n; }
protected:
    template <typename C, typename... SA> void emitSignal(void (C::*sig)(SA...), SA... args) {
        void *a[] = {nullptr, const_cast<void *>(static_cast<const void *>(&args))...};
        auto key = keyOf(sig);
        auto snapshot = conns_;
        for (auto &d : snapshot) if (d->alive && d->key == key) d->call(a + 1);
    }
private:
    // call f with the longest prefix of the signal arguments it accepts (Qt's rule for functor slots)
    template <typename F, typename... SA, std::size_t... I>
    static void invoke(F &f, void **a, std::index_sequence<I...>) { call_prefix<F, std::tuple<SA...>, sizeof...(SA)>(f, a); }
    template <typename F, typename Tup, std::size_t N> static void call_prefix(F &f, void **a) {
        call_n<F, Tup>(f, a, std::make_index_sequence<N>{}, std::integral_constant<std::size_t, N>{});
    }
    template <typename F, typename Tup, std::size_t... I, std::size_t N>
    static void call_n(F &f, void **a, std::index_sequence<I...>, std::integral_constant<std::size_t, N>) {
        if constexpr (std::is_invocable_v<F &, std::tuple_element_t<I, Tup>...>) {
            f(*static_cast<std::remove_reference_t<std::tuple_element_t<I, Tup>> *>(a[I])...);
        } else if constexpr (N > 0) {
            call_prefix<F, Tup, N - 1>(f, a);
        }
    }
    std::vector<std::shared_ptr<ConnData>> conns_;
};

class QWidget : public QObject {};
class QDialog : public QWidget {};

struct QDebugStream {
    std::string lvl; std::vector<std::string> parts;
    explicit QDebugStream(const char *l) : lvl(l) {}
    QDebugStream(QDebugStream &&) = default;
    ~QDebugStream() { verif::trace() << "LOG " << lvl; for (auto &p : parts) verif::trace() << " " << p; verif::trace() << "\n"; }
    QDebugStream &noquote() { return *this; }
    QDebugStream &operator<<(const char *s) { parts.push_back(verif::show(QString(s))); return *this; }
    QDebugStream &operator<<(const QString &s) { parts.push_back(verif::show(s)); return *this; }
    QDebugStream &operator<<(const QStringList &s) { parts.push_back(verif::show(s)); return *this; }
    QDebugStream &operator<<(bool b) { parts.push_back(verif::show(b)); return *this; }
    QDebugStream &operator<<(int v) { parts.push_back(verif::show(v)); return *this; }
    QDebugStream &operator<<(uint v) { parts.push_back(verif::show(v)); return *this; }
    QDebugStream &operator<<(double v) { parts.push_back(verif::show(v)); return *this; }
};
inline QDebugStream qDebug() { return QDebugStream("debug"); }
inline QDebugStream qInfo() { return QDebugStream("info"); }
inline QDebugStream qWarning() { return QDebugStream("warn"); }
inline QDebugStream qCritical() { return QDebugStream("error"); }
// concrete library model: translate(ctx, s) = "tr(" + ctx + ":" + s + ")"
struct QCoreApplication { static QString translate(const char *c, const char *s) { return QString("tr(") + QString(c) + QString(":") + QString(s) + QString(")"); } };
