
// ---------------------------------------------------------------------------------------------
// /verif harness fragment (appended to a scratch copy of lib/src/uigen/layout.rs; cfg(kani) only)
// ---------------------------------------------------------------------------------------------
#[cfg(kani)]
mod verif_kani {
    use super::*;

    const MAX: i32 = 65536;

    fn any_opt(max: i32) -> Option<i32> {
        if kani::any() {
            let v: i32 = kani::any();
            kani::assume(v >= 0 && v <= max);
            Some(v)
        } else {
            None
        }
    }

    /// C12 / one inductive step of the left-to-right cursor from an arbitrary valid state.
    /// Bound: columns in [1, 65536], 0 <= next_row <= 65536, 0 <= next_column < columns,
    /// explicit row in [0, 65535], explicit column in [0, columns-1] (what parse_next lets through).
    #[kani::proof]
    fn c12_next_left_to_right() {
        let columns: i32 = kani::any();
        kani::assume(columns >= 1 && columns <= MAX);
        let r0: i32 = kani::any();
        let c0: i32 = kani::any();
        kani::assume(r0 >= 0 && r0 <= MAX);
        kani::assume(c0 >= 0 && c0 < columns);
        let mut counter = LayoutIndexCounter {
            flow: LayoutFlow::LeftToRight { columns },
            next_row: r0,
            next_column: c0,
        };
        let row = any_opt(65535);
        let column = any_opt(columns - 1);
        let (r, c) = counter.next(row, column);
        // documented flow rule: explicit row and/or column repositions the cursor; a row alone
        // restarts at the first column; otherwise the cursor position is used
        let er = row.unwrap_or(r0);
        let ec = match (row, column) {
            (_, Some(c)) => c,
            (Some(_), None) => 0,
            (None, None) => c0,
        };
        assert!(r == er);
        assert!(c == ec);
        // successor: fill left to right, wrap at the column count
        let (nr, nc) = if ec + 1 == columns { (er + 1, 0) } else { (er, ec + 1) };
        assert!(counter.next_row == nr);
        assert!(counter.next_column == nc);
        // validity is preserved, hence sequences of any length are covered
        assert!(counter.next_row >= 0 && counter.next_column >= 0 && counter.next_column < columns);
        kani::cover!(row.is_some() && column.is_none(), "explicit row only");
        kani::cover!(row.is_none() && column.is_some(), "explicit column only");
        kani::cover!(ec + 1 == columns, "wraps");
        kani::cover!(columns == 1, "single column");
    }

    /// C12 / dual: top-to-bottom flow wrapping at the row count.
    #[kani::proof]
    fn c12_next_top_to_bottom() {
        let rows: i32 = kani::any();
        kani::assume(rows >= 1 && rows <= MAX);
        let r0: i32 = kani::any();
        let c0: i32 = kani::any();
        kani::assume(c0 >= 0 && c0 <= MAX);
        kani::assume(r0 >= 0 && r0 < rows);
        let mut counter = LayoutIndexCounter {
            flow: LayoutFlow::TopToBottom { rows },
            next_row: r0,
            next_column: c0,
        };
        let row = any_opt(rows - 1);
        let column = any_opt(65535);
        let (r, c) = counter.next(row, column);
        let ec = column.unwrap_or(c0);
        let er = match (row, column) {
            (Some(r), _) => r,
            (None, Some(_)) => 0,
            (None, None) => r0,
        };
        assert!(r == er);
        assert!(c == ec);
        let (nr, nc) = if er + 1 == rows { (0, ec + 1) } else { (er + 1, ec) };
        assert!(counter.next_row == nr);
        assert!(counter.next_column == nc);
        assert!(counter.next_column >= 0 && counter.next_row >= 0 && counter.next_row < rows);
        kani::cover!(row.is_some() && column.is_none(), "explicit row only");
        kani::cover!(row.is_none() && column.is_some(), "explicit column only");
        kani::cover!(er + 1 == rows, "wraps");
    }

    /// C12 / LayoutIndexCounter::new starts at the origin for either flow.
    #[kani::proof]
    fn c12_counter_new_origin() {
        let n: i32 = kani::any();
        kani::assume(n >= 1 && n <= MAX);
        let flow = if kani::any() { LayoutFlow::LeftToRight { columns: n } } else { LayoutFlow::TopToBottom { rows: n } };
        let mut counter = LayoutIndexCounter::new(flow);
        assert!(counter.next_row == 0 && counter.next_column == 0);
        let (r, c) = counter.next(None, None);
        assert!(r == 0 && c == 0);
        kani::cover!(n == 1, "n=1");
    }

    /// vacuity witness: must FAIL (the assertion is reachable under the assumptions)
    #[kani::proof]
    fn c12_witness_reachable() {
        let columns: i32 = kani::any();
        kani::assume(columns >= 1 && columns <= MAX);
        let mut counter = LayoutIndexCounter::new(LayoutFlow::LeftToRight { columns });
        let _ = counter.next(None, None);
        assert!(false, "reachability witness");
    }
}
