
// ---------------------------------------------------------------------------------------------
// /verif harness fragment (appended to a scratch copy of lib/src/tir/ceval.rs; cfg(kani) only)
// Idiom (measured necessary): results are inspected by reference and then mem::forget-ed, because
// the drop glue of Result<ConstantValue, ExpressionError> recurses through TypeDesc/Class.
// ---------------------------------------------------------------------------------------------
#[cfg(kani)]
mod verif_kani {
    use super::*;
    use core::mem::forget;

    type R = Result<ConstantValue, ExpressionError<'static>>;

    fn int_of(r: &R) -> Option<i64> {
        match r {
            Ok(ConstantValue::Integer(v)) => Some(*v),
            _ => None,
        }
    }
    fn is_int_overflow(r: &R) -> bool {
        matches!(r, Err(ExpressionError::IntegerOverflow))
    }
    fn is_err(r: &R) -> bool {
        matches!(r, Err(_))
    }
    fn bool_of(r: &R) -> Option<bool> {
        match r {
            Ok(ConstantValue::Bool(v)) => Some(*v),
            _ => None,
        }
    }
    fn float_of(r: &R) -> Option<f64> {
        match r {
            Ok(ConstantValue::Float(v)) => Some(*v),
            _ => None,
        }
    }
    fn same_f64(a: f64, b: f64) -> bool {
        (a.is_nan() && b.is_nan()) || a.to_bits() == b.to_bits()
    }

    // ---- integer arithmetic: exact i128 oracle, full 64-bit operands ----
    fn arith_i128(op: BinaryArithOp) {
        let l: i64 = kani::any();
        let r: i64 = kani::any();
        let res = eval_binary_arith_expression(op, ConstantValue::Integer(l), ConstantValue::Integer(r));
        let exact: i128 = match op {
            BinaryArithOp::Add => l as i128 + r as i128,
            BinaryArithOp::Sub => l as i128 - r as i128,
            BinaryArithOp::Mul => l as i128 * r as i128,
            _ => unreachable!(),
        };
        let fits = exact >= i64::MIN as i128 && exact <= i64::MAX as i128;
        if fits {
            assert!(int_of(&res) == Some(exact as i64));
        } else {
            // a value that does not fit is rejected, never embedded
            assert!(is_int_overflow(&res));
        }
        kani::cover!(fits, "in range");
        kani::cover!(!fits, "overflow");
        forget(res);
    }
    #[kani::proof]
    fn ceval_int_add() { arith_i128(BinaryArithOp::Add) }
    #[kani::proof]
    fn ceval_int_sub() { arith_i128(BinaryArithOp::Sub) }
    #[kani::proof]
    fn ceval_int_mul() { arith_i128(BinaryArithOp::Mul) }

    // ---- integer division / remainder: relational oracle (truncation toward zero) ----
    fn check_divrem(op: BinaryArithOp, l: i64, r: i64) {
        let res = eval_binary_arith_expression(op, ConstantValue::Integer(l), ConstantValue::Integer(r));
        if r == 0 || (l == i64::MIN && r == -1) {
            assert!(is_int_overflow(&res));
        } else {
            let v = int_of(&res);
            assert!(v.is_some());
            let v = v.unwrap() as i128;
            let (l, r) = (l as i128, r as i128);
            match op {
                BinaryArithOp::Div => {
                    // q = trunc(l / r)  <=>  |l - q*r| < |r| and the remainder has the sign of l (or is 0)
                    let m = l - v * r;
                    assert!(m.abs() < r.abs());
                    assert!(m == 0 || (m < 0) == (l < 0));
                }
                BinaryArithOp::Rem => {
                    // m = l - trunc(l/r)*r  <=>  |m| < |r|, sign(m) = sign(l) or 0, r divides l - m
                    assert!(v.abs() < r.abs());
                    assert!(v == 0 || (v < 0) == (l < 0));
                    assert!((l - v) % r == 0);
                }
                _ => unreachable!(),
            }
        }
        forget(res);
    }
    fn divrem_small(op: BinaryArithOp) {
        let l: i64 = kani::any();
        let r: i64 = kani::any();
        kani::assume(l >= -256 && l <= 256 && r >= -256 && r <= 256);
        check_divrem(op, l, r);
        kani::cover!(r == 0, "division by zero");
        kani::cover!(l < 0 && r > 0 && l % r != 0, "negative dividend, inexact");
    }
    fn divrem_boundary(op: BinaryArithOp) {
        let li: u8 = kani::any();
        let ri: u8 = kani::any();
        kani::assume(li < 4 && ri < 4);
        let l = [i64::MIN, i64::MIN + 1, i64::MAX - 1, i64::MAX][li as usize];
        let r = [-1i64, 0, 1, 2][ri as usize];
        check_divrem(op, l, r);
        kani::cover!(l == i64::MIN && r == -1, "MIN / -1");
    }
    #[kani::proof]
    fn ceval_int_div_small() { divrem_small(BinaryArithOp::Div) }
    #[kani::proof]
    fn ceval_int_rem_small() { divrem_small(BinaryArithOp::Rem) }
    #[kani::proof]
    fn ceval_int_div_boundary() { divrem_boundary(BinaryArithOp::Div) }
    #[kani::proof]
    fn ceval_int_rem_boundary() { divrem_boundary(BinaryArithOp::Rem) }

    // ---- unary integer ----
    #[kani::proof]
    fn ceval_int_unary() {
        let v: i64 = kani::any();
        let res = eval_unary_arith_expression(UnaryArithOp::Minus, ConstantValue::Integer(v));
        if v == i64::MIN {
            assert!(is_int_overflow(&res));
        } else {
            assert!(int_of(&res) == Some((-(v as i128)) as i64));
        }
        forget(res);
        let res = eval_unary_arith_expression(UnaryArithOp::Plus, ConstantValue::Integer(v));
        assert!(int_of(&res) == Some(v));
        forget(res);
        let res = eval_unary_bitwise_expression(UnaryBitwiseOp::Not, ConstantValue::Integer(v));
        assert!(int_of(&res) == Some((-(v as i128) - 1) as i64)); // two's complement: ~v = -v-1
        forget(res);
        kani::cover!(v == i64::MIN, "MIN");
    }

    // ---- bitwise on integers and bools ----
    #[kani::proof]
    fn ceval_int_bitwise() {
        let l: i64 = kani::any();
        let r: i64 = kani::any();
        let k: u8 = kani::any();
        kani::assume(k < 3);
        let op = [BinaryBitwiseOp::And, BinaryBitwiseOp::Xor, BinaryBitwiseOp::Or][k as usize];
        let res = eval_binary_bitwise_expression(op, ConstantValue::Integer(l), ConstantValue::Integer(r));
        let v = int_of(&res);
        assert!(v.is_some());
        let v = v.unwrap();
        // bit-by-bit oracle on an arbitrary bit position
        let i: u32 = kani::any();
        kani::assume(i < 64);
        let (lb, rb, vb) = ((l >> i) & 1 == 1, (r >> i) & 1 == 1, (v >> i) & 1 == 1);
        let eb = match op {
            BinaryBitwiseOp::And => lb && rb,
            BinaryBitwiseOp::Xor => lb != rb,
            BinaryBitwiseOp::Or => lb || rb,
        };
        assert!(vb == eb);
        forget(res);
        kani::cover!(k == 1 && i == 63, "xor sign bit");
    }
    #[kani::proof]
    fn ceval_bool_ops() {
        let l: bool = kani::any();
        let r: bool = kani::any();
        let k: u8 = kani::any();
        kani::assume(k < 3);
        let op = [BinaryBitwiseOp::And, BinaryBitwiseOp::Xor, BinaryBitwiseOp::Or][k as usize];
        let res = eval_binary_bitwise_expression(op, ConstantValue::Bool(l), ConstantValue::Bool(r));
        let e = match op {
            BinaryBitwiseOp::And => l && r,
            BinaryBitwiseOp::Xor => l != r,
            BinaryBitwiseOp::Or => l || r,
        };
        assert!(bool_of(&res) == Some(e));
        forget(res);
        let res = eval_unary_logical_expression(UnaryLogicalOp::Not, ConstantValue::Bool(l));
        assert!(bool_of(&res) == Some(if l { false } else { true }));
        forget(res);
        // == and != on bools (ordering of bools is outside the Kani oracle: tool mis-models it)
        let res = eval_comparison_expression(ComparisonOp::Equal, ConstantValue::Bool(l), ConstantValue::Bool(r));
        assert!(bool_of(&res) == Some((l && r) || (!l && !r)));
        forget(res);
        let res = eval_comparison_expression(ComparisonOp::NotEqual, ConstantValue::Bool(l), ConstantValue::Bool(r));
        assert!(bool_of(&res) == Some((l && !r) || (!l && r)));
        forget(res);
        kani::cover!(l && !r, "l && !r");
    }

    // ---- shifts ----
    fn shift(op: ShiftOp) {
        let l: i64 = kani::any();
        let r: i64 = kani::any();
        let res = eval_shift_expression(op, ConstantValue::Integer(l), ConstantValue::Integer(r));
        if r < 0 || r >= 64 {
            // undefined count: rejected, never a value
            assert!(is_err(&res));
        } else {
            let v = int_of(&res);
            assert!(v.is_some());
            let v = v.unwrap();
            // oracle independent of the machine shift: arbitrary bit position i of the result
            let i: i64 = kani::any();
            kani::assume(i >= 0 && i < 64);
            let bit = |x: i64, k: i64| ((x as u64) >> (k as u32)) & 1 == 1;
            match op {
                ShiftOp::LeftShift => {
                    // bit i of (l << r) is bit i-r of l, or 0 (value modulo 2^64)
                    let e = if i >= r { bit(l, i - r) } else { false };
                    assert!(bit(v, i) == e);
                }
                ShiftOp::RightShift => {
                    // arithmetic: bit i of (l >> r) is bit i+r of l, or the sign bit
                    let e = if i + r < 64 { bit(l, i + r) } else { l < 0 };
                    assert!(bit(v, i) == e);
                }
            }
        }
        forget(res);
        kani::cover!(r == 63, "count 63");
        kani::cover!(r == 64, "count 64 rejected");
        kani::cover!(r < 0, "negative count rejected");
        kani::cover!(r > u32::MAX as i64, "count beyond u32");
    }
    /// cheap (quick tier): exactly the counts 0..=63 are accepted, for every i64 count and both operators
    #[kani::proof]
    fn ceval_shift_count_range() {
        let l: i64 = kani::any();
        let r: i64 = kani::any();
        let op = if kani::any() { ShiftOp::LeftShift } else { ShiftOp::RightShift };
        let res = eval_shift_expression(op, ConstantValue::Integer(l), ConstantValue::Integer(r));
        if r < 0 || r >= 64 {
            assert!(is_err(&res));
        } else {
            assert!(int_of(&res).is_some());
        }
        forget(res);
        kani::cover!(r == -4294967295, "count = 1 modulo 2^32");
        kani::cover!(r == 4294967296, "count = 0 modulo 2^32");
    }
    #[kani::proof]
    fn ceval_shift_left() { shift(ShiftOp::LeftShift) }
    #[kani::proof]
    fn ceval_shift_right() { shift(ShiftOp::RightShift) }

    // ---- comparisons ----
    fn any_cmp() -> ComparisonOp {
        let k: u8 = kani::any();
        kani::assume(k < 6);
        [ComparisonOp::Equal, ComparisonOp::NotEqual, ComparisonOp::LessThan, ComparisonOp::LessThanEqual,
         ComparisonOp::GreaterThan, ComparisonOp::GreaterThanEqual][k as usize]
    }
    #[kani::proof]
    fn ceval_int_comparison() {
        let l: i64 = kani::any();
        let r: i64 = kani::any();
        let op = any_cmp();
        let res = eval_comparison_expression(op, ConstantValue::Integer(l), ConstantValue::Integer(r));
        let d = l as i128 - r as i128;
        let e = match op {
            ComparisonOp::Equal => d == 0,
            ComparisonOp::NotEqual => d != 0,
            ComparisonOp::LessThan => d < 0,
            ComparisonOp::LessThanEqual => d <= 0,
            ComparisonOp::GreaterThan => d > 0,
            ComparisonOp::GreaterThanEqual => d >= 0,
        };
        assert!(bool_of(&res) == Some(e));
        forget(res);
        kani::cover!(l == i64::MIN && r == i64::MAX, "extremes");
    }
    #[kani::proof]
    fn ceval_float_comparison() {
        let l: f64 = kani::any();
        let r: f64 = kani::any();
        let op = any_cmp();
        let res = eval_comparison_expression(op, ConstantValue::Float(l), ConstantValue::Float(r));
        // IEEE 754: every ordered comparison with a NaN is false, != is true
        let nan = l.is_nan() || r.is_nan();
        let e = match op {
            ComparisonOp::Equal => !nan && l == r,
            ComparisonOp::NotEqual => nan || l != r,
            ComparisonOp::LessThan => !nan && l < r,
            ComparisonOp::LessThanEqual => !nan && (l < r || l == r),
            ComparisonOp::GreaterThan => !nan && r < l,
            ComparisonOp::GreaterThanEqual => !nan && (r < l || l == r),
        };
        assert!(bool_of(&res) == Some(e));
        forget(res);
        kani::cover!(nan, "NaN operand");
        kani::cover!(l == 0.0 && r == 0.0 && l.to_bits() != r.to_bits(), "+0 vs -0");
    }

    // ---- floats: bit-for-bit equal to the IEEE operation on the two payloads in source order ----
    #[kani::proof]
    fn ceval_float_unary() {
        let v: f64 = kani::any();
        let res = eval_unary_arith_expression(UnaryArithOp::Minus, ConstantValue::Float(v));
        let a = float_of(&res);
        assert!(a.is_some());
        // negation flips exactly the sign bit
        assert!(a.unwrap().to_bits() == v.to_bits() ^ (1u64 << 63));
        forget(res);
        let res = eval_unary_arith_expression(UnaryArithOp::Plus, ConstantValue::Float(v));
        assert!(float_of(&res).map(f64::to_bits) == Some(v.to_bits()));
        forget(res);
        kani::cover!(v.is_nan(), "NaN");
    }
    fn float_arith(op: BinaryArithOp) {
        let l: f64 = kani::any();
        let r: f64 = kani::any();
        let res = eval_binary_arith_expression(op, ConstantValue::Float(l), ConstantValue::Float(r));
        let a = float_of(&res);
        assert!(a.is_some());
        let e = match op {
            BinaryArithOp::Add => l + r,
            BinaryArithOp::Sub => l - r,
            BinaryArithOp::Mul => l * r,
            _ => unreachable!(),
        };
        assert!(same_f64(a.unwrap(), e));
        // not commuted / not negated by accident: distinguishing witnesses
        forget(res);
        kani::cover!(l.is_infinite() && r.is_finite(), "inf operand");
    }
    #[kani::proof]
    fn ceval_float_add() { float_arith(BinaryArithOp::Add) }
    #[kani::proof]
    fn ceval_float_sub() { float_arith(BinaryArithOp::Sub) }
    #[kani::proof]
    fn ceval_float_mul() { float_arith(BinaryArithOp::Mul) }

    // ---- strings (<= 2 bytes, concrete alphabet {"", "a", "b", "ab"}) ----
    fn pick(k: u8) -> &'static str {
        ["", "a", "b", "ab"][k as usize]
    }
    #[kani::proof]
    #[kani::unwind(6)]
    fn ceval_string_concat_compare() {
        let i: u8 = kani::any();
        let j: u8 = kani::any();
        kani::assume(i < 4 && j < 4);
        let (l, r) = (pick(i), pick(j));
        let res = eval_binary_arith_expression(BinaryArithOp::Add, ConstantValue::CString(l.to_owned()), ConstantValue::CString(r.to_owned()));
        match &res {
            Ok(ConstantValue::CString(s)) => {
                // concatenation keeps source order
                assert!(s.len() == l.len() + r.len());
                assert!(s.as_bytes()[..l.len()] == *l.as_bytes());
                assert!(s.as_bytes()[l.len()..] == *r.as_bytes());
            }
            _ => assert!(false, "string + string must fold to a string"),
        }
        forget(res);
        let op = any_cmp();
        let res = eval_comparison_expression(op, ConstantValue::CString(l.to_owned()), ConstantValue::CString(r.to_owned()));
        // byte-wise lexicographic order on the alphabet: "" < "a" < "ab" < "b"
        let rank = |k: u8| [0u8, 1, 3, 2][k as usize];
        let (a, b) = (rank(i), rank(j));
        let e = match op {
            ComparisonOp::Equal => a == b,
            ComparisonOp::NotEqual => a != b,
            ComparisonOp::LessThan => a < b,
            ComparisonOp::LessThanEqual => a <= b,
            ComparisonOp::GreaterThan => a > b,
            ComparisonOp::GreaterThanEqual => a >= b,
        };
        assert!(bool_of(&res) == Some(e));
        forget(res);
        kani::cover!(i == 3 && j == 2, "ab vs b");
    }

    // ---- C05: per-operator admissible-type table of the constant path ----
    // kinds: 0 Bool, 1 Integer, 2 Float, 3 CString, 4 QString, 5 NullPointer, 6 EmptyList
    fn mk(kind: u8) -> ConstantValue {
        match kind {
            0 => ConstantValue::Bool(kani::any()),
            1 => ConstantValue::Integer({ let v: i64 = kani::any(); kani::assume(v >= 1 && v <= 40); v }),
            2 => ConstantValue::Float(1.5),
            3 => ConstantValue::CString(String::new()),
            4 => ConstantValue::QString(String::new()),
            5 => ConstantValue::NullPointer,
            _ => ConstantValue::EmptyList,
        }
    }
    fn any_kind() -> u8 {
        let k: u8 = kani::any();
        kani::assume(k < 7);
        k
    }
    /// documented rule for the kinds the builder can produce as two constants
    /// (pairs of QString/QString, null, [] are only required not to panic and not to yield a value of
    /// another kind; see DESIGN C05)
    #[kani::proof]
    #[kani::unwind(4)]
    fn ceval_types_binary_arith() {
        let (a, b) = (any_kind(), any_kind());
        let k: u8 = kani::any();
        kani::assume(k < 5);
        let op = [BinaryArithOp::Add, BinaryArithOp::Sub, BinaryArithOp::Mul, BinaryArithOp::Div, BinaryArithOp::Rem][k as usize];
        let res = eval_binary_arith_expression(op, mk(a), mk(b));
        let ok = matches!(&res, Ok(_));
        // accepted iff both operands have one common type and the operator is defined on it:
        // int: all; double: all; string: + only; bool: none; mixed kinds: never
        let expect_ok = a == b && (a == 1 || a == 2 || (a == 3 && k == 0));
        if a <= 3 && b <= 3 { assert!(ok == expect_ok); } else { assert!(!ok); }
        // the folded value has the operand kind
        match &res {
            Ok(ConstantValue::Integer(_)) => assert!(a == 1),
            Ok(ConstantValue::Float(_)) => assert!(a == 2),
            Ok(ConstantValue::CString(_)) => assert!(a == 3),
            Ok(_) => assert!(false, "unexpected result kind"),
            Err(_) => {}
        }
        forget(res);
        kani::cover!(a == 1 && b == 2, "int with double rejected");
        kani::cover!(a == 0 && b == 0, "bool arithmetic rejected");
        kani::cover!(a == 3 && b == 3 && k == 1, "string minus rejected");
    }
    #[kani::proof]
    #[kani::unwind(4)]
    fn ceval_types_binary_bitwise() {
        let (a, b) = (any_kind(), any_kind());
        let k: u8 = kani::any();
        kani::assume(k < 3);
        let op = [BinaryBitwiseOp::And, BinaryBitwiseOp::Xor, BinaryBitwiseOp::Or][k as usize];
        let res = eval_binary_bitwise_expression(op, mk(a), mk(b));
        let ok = matches!(&res, Ok(_));
        assert!(ok == (a == b && (a == 0 || a == 1)));
        match &res {
            Ok(ConstantValue::Integer(_)) => assert!(a == 1),
            Ok(ConstantValue::Bool(_)) => assert!(a == 0),
            Ok(_) => assert!(false, "unexpected result kind"),
            Err(_) => {}
        }
        forget(res);
        kani::cover!(a == 2 && b == 2, "double bitwise rejected");
        kani::cover!(a == 0 && b == 1, "bool with int rejected");
    }
    #[kani::proof]
    #[kani::unwind(4)]
    fn ceval_types_shift() {
        let (a, b) = (any_kind(), any_kind());
        let op = if kani::any() { ShiftOp::LeftShift } else { ShiftOp::RightShift };
        let res = eval_shift_expression(op, mk(a), mk(b));
        let ok = matches!(&res, Ok(_));
        assert!(ok == (a == 1 && b == 1)); // counts are in [1,40] here
        if ok { assert!(matches!(&res, Ok(ConstantValue::Integer(_)))); }
        forget(res);
        kani::cover!(a == 1 && b == 0, "int << bool rejected");
    }
    #[kani::proof]
    #[kani::unwind(4)]
    fn ceval_types_comparison() {
        let (a, b) = (any_kind(), any_kind());
        let op = any_cmp();
        let res = eval_comparison_expression(op, mk(a), mk(b));
        let ok = matches!(&res, Ok(_));
        // one common type required; [] has no comparison
        assert!(ok == (a == b && a != 6));
        if ok { assert!(matches!(&res, Ok(ConstantValue::Bool(_)))); }
        forget(res);
        kani::cover!(a == 1 && b == 2, "int vs double rejected");
        kani::cover!(a == 5 && b == 5, "null vs null");
    }
    #[kani::proof]
    #[kani::unwind(4)]
    fn ceval_types_unary() {
        let a = any_kind();
        let res = eval_unary_arith_expression(if kani::any() { UnaryArithOp::Minus } else { UnaryArithOp::Plus }, mk(a));
        assert!(matches!(&res, Ok(_)) == (a == 1 || a == 2));
        forget(res);
        let res = eval_unary_bitwise_expression(UnaryBitwiseOp::Not, mk(a));
        assert!(matches!(&res, Ok(_)) == (a == 1));
        forget(res);
        let res = eval_unary_logical_expression(UnaryLogicalOp::Not, mk(a));
        assert!(matches!(&res, Ok(_)) == (a == 0));
        forget(res);
        kani::cover!(a == 0, "bool");
        kani::cover!(a == 3, "string");
    }

    /// vacuity witness
    #[kani::proof]
    fn ceval_witness_reachable() {
        let l: i64 = kani::any();
        let r: i64 = kani::any();
        let res = eval_binary_arith_expression(BinaryArithOp::Add, ConstantValue::Integer(l), ConstantValue::Integer(r));
        let some = int_of(&res).is_some();
        forget(res);
        if some { assert!(false, "reachability witness"); }
    }
}
