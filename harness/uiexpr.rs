
// ---------------------------------------------------------------------------------------------
// /verif harness fragment (appended to a scratch copy of lib/src/uigen/expr.rs; cfg(kani) only)
// ---------------------------------------------------------------------------------------------
#[cfg(kani)]
mod verif_kani {
    use super::*;

    fn number_of(v: &SimpleValue) -> Option<f64> {
        match v {
            SimpleValue::Number(d) => Some(*d),
            _ => None,
        }
    }

    /// C03-4: an evaluated integer must reach the XML number unchanged, for every i64.
    /// (On the pinned tree this is refuted for |v| > 2^53: known finding F2.)
    #[kani::proof]
    fn c03_integer_to_number_exact() {
        let v: i64 = kani::any();
        let s = EvaluatedValue::Integer(v).unwrap_into_simple_value();
        let d = number_of(&s);
        assert!(d.is_some());
        let d = d.unwrap();
        assert!(d as i128 == v as i128, "integer constant changed on its way into the .ui");
        core::mem::forget(s);
    }

    /// C03-4 restricted to the range every int/uint/double property can hold exactly.
    #[kani::proof]
    fn c03_integer_to_number_exact_53bit() {
        let v: i64 = kani::any();
        kani::assume(v >= -(1i64 << 53) && v <= (1i64 << 53));
        let s = EvaluatedValue::Integer(v).unwrap_into_simple_value();
        let d = number_of(&s);
        assert!(d.is_some());
        assert!(d.unwrap() as i128 == v as i128);
        core::mem::forget(s);
        kani::cover!(v == (1i64 << 53), "2^53");
        kani::cover!(v == i32::MIN as i64, "INT_MIN");
    }

    /// C03: bool and double constants pass through unchanged (bit-for-bit for doubles).
    #[kani::proof]
    fn c03_bool_float_passthrough() {
        let b: bool = kani::any();
        let s = EvaluatedValue::Bool(b).unwrap_into_simple_value();
        assert!(matches!(&s, SimpleValue::Bool(x) if *x == b));
        core::mem::forget(s);
        let f: f64 = kani::any();
        let s = EvaluatedValue::Float(f).unwrap_into_simple_value();
        let d = number_of(&s);
        assert!(d.is_some());
        assert!(d.unwrap().to_bits() == f.to_bits());
        core::mem::forget(s);
        kani::cover!(f.is_nan(), "NaN payload kept");
    }
}
