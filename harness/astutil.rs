
// ---------------------------------------------------------------------------------------------
// /verif harness fragment (appended to a scratch copy of lib/src/qmlast/astutil.rs; cfg(kani) only)
// ---------------------------------------------------------------------------------------------
#[cfg(kani)]
mod verif_kani {
    use super::*;

    fn ascii<const N: usize>() -> [u8; N] {
        let b: [u8; N] = kani::any();
        let mut i = 0;
        while i < N {
            kani::assume(b[i] < 0x80);
            i += 1;
        }
        b
    }

    /// ECMAScript radix selection, written independently of the implementation
    fn radix_oracle(b: &[u8]) -> Option<(u32, usize)> {
        if b.len() >= 2 && b[0] == b'0' {
            match b[1] {
                b'b' | b'B' => return Some((2, 2)),
                b'o' | b'O' => return Some((8, 2)),
                b'x' | b'X' => return Some((16, 2)),
                _ => {}
            }
            // legacy octal: 0 followed by octal digits only
            let mut all = true;
            let mut i = 0;
            while i < b.len() {
                all &= b[i] >= b'0' && b[i] <= b'7';
                i += 1;
            }
            if all {
                return Some((8, 1));
            }
        }
        None
    }

    fn check_radix(b: &[u8]) {
        let s = core::str::from_utf8(b).unwrap();
        let got = strip_radix_prefix(s);
        match radix_oracle(b) {
            None => assert!(got.is_none()),
            Some((radix, skip)) => {
                assert!(got.is_some());
                let (r, t) = got.unwrap();
                assert!(r == radix);
                // the tail is the input minus the prefix (same bytes, same place)
                assert!(t.len() == b.len() - skip);
                assert!(t.as_ptr() == b[skip..].as_ptr());
            }
        }
    }

    /// C03-2: every ASCII string of length 1..=4
    #[kani::proof]
    #[kani::unwind(6)]
    fn c03_strip_radix_prefix_len_1_to_4() {
        let b = ascii::<4>();
        let len: usize = kani::any();
        kani::assume(len >= 1 && len <= 4);
        check_radix(&b[..len]);
        kani::cover!(len == 4 && b[0] == b'0' && b[1] == b'X', "0X..");
        kani::cover!(len == 3 && radix_oracle(&b[..3]) == Some((8, 1)), "legacy octal");
        kani::cover!(len == 2 && b[0] == b'0' && b[1] == b'8', "08 is decimal");
        kani::cover!(len == 1 && b[0] == b'0', "plain zero");
    }

    fn hexval(b: u8) -> Option<u32> {
        match b {
            b'0'..=b'9' => Some((b - b'0') as u32),
            b'a'..=b'f' => Some((b - b'a' + 10) as u32),
            b'A'..=b'F' => Some((b - b'A' + 10) as u32),
            _ => None,
        }
    }
    fn hex_all(b: &[u8]) -> Option<u32> {
        let mut v: u32 = 0;
        let mut i = 0;
        while i < b.len() {
            match hexval(b[i]) {
                Some(x) => v = v * 16 + x,
                None => return None,
            }
            i += 1;
        }
        Some(v)
    }
    fn scalar(v: u32) -> Option<u32> {
        // Unicode scalar value: not a surrogate, <= 0x10FFFF
        if v > 0x10FFFF || (v >= 0xD800 && v <= 0xDFFF) { None } else { Some(v) }
    }

    /// ECMAScript meaning of an escape sequence; `Err(())` = "no constraint" (input the tokenizer cannot
    /// produce: a '+' sign where a hex digit is expected -- std's from_str_radix accepts it)
    fn escape_oracle(b: &[u8]) -> Result<Option<u32>, ()> {
        if b.len() < 2 || b[0] != b'\\' {
            return Ok(None);
        }
        let t = &b[1..];
        if t.len() == 1 {
            return Ok(match t[0] {
                b'0' => Some(0),
                b'\'' => Some(0x27),
                b'"' => Some(0x22),
                b'\\' => Some(0x5c),
                b'n' => Some(0x0a),
                b'r' => Some(0x0d),
                b'v' => Some(0x0b),
                b't' => Some(0x09),
                b'b' => Some(0x08),
                b'f' => Some(0x0c),
                // line terminators: a line continuation contributes NO character; digits 1-9 and bare x/u are not
                // single-character escapes: all of these must be rejected
                b'\n' | b'\r' | b'1'..=b'9' | b'x' | b'u' => None,
                // any other character: ECMAScript's identity escape.  qmluic may reject it (None) or decode it to
                // the character itself -- never to anything else
                _ => return Err(()),
            });
        }
        let digits: &[u8] = if t.len() >= 3 && t[0] == b'u' && t[1] == b'{' && t[t.len() - 1] == b'}' {
            &t[2..t.len() - 1]
        } else if (t[0] == b'u' && t.len() == 5) || (t[0] == b'x' && t.len() == 3) {
            &t[1..]
        } else {
            return Ok(None);
        };
        if digits.len() > 0 && digits[0] == b'+' {
            return Err(());
        }
        if digits.is_empty() {
            return Ok(None);
        }
        Ok(hex_all(digits).and_then(scalar))
    }

    fn check_escape(b: &[u8]) {
        if let Ok(s) = core::str::from_utf8(b) {
            let got = unescape_char(s).map(|c| c as u32);
            match escape_oracle(b) {
                Ok(e) => assert!(got == e),
                Err(()) => {
                    // identity escape (single other character) or an input the tokenizer cannot produce
                    if b.len() == 2 && b[0] == b'\\' {
                        assert!(got.is_none() || got == Some(b[1] as u32));
                    }
                }
            }
        }
    }

    /// C03-3: every UTF-8 string of length 0..=6 (covers \c, \xHH, \uHHHH, \u{H}, \u{HH})
    #[kani::proof]
    #[kani::unwind(9)]
    fn c03_unescape_char_le_6_bytes() {
        let b: [u8; 6] = kani::any();
        let len: usize = kani::any();
        kani::assume(len <= 6);
        check_escape(&b[..len]);
        kani::cover!(len == 2 && b[0] == b'\\' && b[1] == b'v', "\\v");
        kani::cover!(len == 4 && escape_oracle(&b[..4]) == Ok(Some(0x7f)), "\\x7f");
        kani::cover!(len == 6 && escape_oracle(&b[..6]) == Ok(Some(0x300f)), "\\u300f");
        kani::cover!(len == 6 && b[1] == b'u' && b[2] == b'd' && b[3] == b'8', "surrogate rejected");
        kani::cover!(len == 6 && b[2] == b'{' && escape_oracle(&b[..6]) == Ok(Some(0x2f)), "\\u{2f}");
    }

    /// C03-3: \u{H...} with 1..=7 arbitrary ASCII bytes between the braces (covers 0x10FFFF and beyond)
    #[kani::proof]
    #[kani::unwind(13)]
    fn c03_unescape_char_braced() {
        let d = ascii::<7>();
        let n: usize = kani::any();
        kani::assume(n >= 1 && n <= 7);
        let mut b = [0u8; 11];
        b[0] = b'\\';
        b[1] = b'u';
        b[2] = b'{';
        let mut i = 0;
        while i < n {
            b[3 + i] = d[i];
            i += 1;
        }
        b[3 + n] = b'}';
        check_escape(&b[..4 + n]);
        kani::cover!(n == 6 && escape_oracle(&b[..10]) == Ok(Some(0x10FFFF)), "max scalar");
        kani::cover!(n == 6 && hex_all(&d[..6]) == Some(0x110000), "beyond max rejected");
        kani::cover!(n == 4 && hex_all(&d[..4]) == Some(0xDFFF), "surrogate rejected");
    }

    /// vacuity witness
    #[kani::proof]
    #[kani::unwind(6)]
    fn c03_astutil_witness_reachable() {
        let b = ascii::<3>();
        let s = core::str::from_utf8(&b).unwrap();
        if strip_radix_prefix(s).is_some() && unescape_char("\\n") == Some('\n') {
            assert!(false, "reachability witness");
        }
    }
}
