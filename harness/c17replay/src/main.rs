use qmluic::metatype;
use qmluic::typemap::{Class, ModuleData, ModuleId, NamedType, TypeMap, TypeSpace};
use std::io::Read;

fn class_of<'a>(ns: &qmluic::typemap::Namespace<'a>, name: &str) -> Class<'a> {
    match ns.get_type(name) {
        Some(Ok(NamedType::Class(c))) => c,
        other => panic!("class {name} does not resolve: {other:?}"),
    }
}

fn main() {
    let mut text = String::new();
    std::io::stdin().read_to_string(&mut text).unwrap();
    let spec: serde_json::Value = serde_json::from_str(&text).unwrap();
    let classes: Vec<metatype::Class> = serde_json::from_value(spec["classes"].clone()).unwrap();
    let mut type_map = TypeMap::with_primitive_types();
    let module_id = ModuleId::Named("c17");
    let mut module_data = ModuleData::with_builtins();
    module_data.extend(classes);
    type_map.insert_module(module_id, module_data);
    let module = type_map.get_module(module_id).unwrap();
    for q in spec["queries"].as_array().unwrap() {
        let kind = q["kind"].as_str().unwrap();
        let a = class_of(&module, q["a"].as_str().unwrap());
        let out = match kind {
            "is_derived_from" => {
                let b = class_of(&module, q["b"].as_str().unwrap());
                format!("{}", a.is_derived_from(&b))
            }
            "common_base_class" => {
                let b = class_of(&module, q["b"].as_str().unwrap());
                match a.common_base_class(&b) {
                    None => "None".to_owned(),
                    Some(Err(_)) => "Err".to_owned(),
                    Some(Ok(c)) => format!("Ok({})", c.name()),
                }
            }
            "get_property" => match a.get_property("member") {
                None => "None".to_owned(),
                Some(Err(_)) => "Err".to_owned(),
                Some(Ok(p)) => format!("Ok({})", p.object_class().name()),
            },
            "get_public_method" => match a.get_public_method("memberFn") {
                None => "None".to_owned(),
                Some(Err(_)) => "Err".to_owned(),
                Some(Ok(m)) => format!("Ok({})", m.into_iter().next().unwrap().object_class().name()),
            },
            "get_type" => match a.get_type("MemberEnum") {
                None => "None".to_owned(),
                Some(Err(_)) => "Err".to_owned(),
                Some(Ok(t)) => format!("Ok({})", t.qualified_cxx_name()),
            },
            "resolve_type" => match a.resolve_type("MemberEnum") {
                None => "None".to_owned(),
                Some(Err(_)) => "Err".to_owned(),
                Some(Ok(t)) => format!("Ok({})", t.qualified_cxx_name()),
            },
            "get_enum_by_variant" => match a.get_enum_by_variant("MemberVariant") {
                None => "None".to_owned(),
                Some(Err(_)) => "Err".to_owned(),
                Some(Ok(e)) => format!("Ok({})", e.qualified_cxx_name()),
            },
            _ => panic!("unknown query {kind}"),
        };
        println!("RESULT {out}");
    }
}
