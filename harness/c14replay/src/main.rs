use qmluic::diagnostic::Diagnostics;
use qmluic::metatype;
use qmluic::metatype_tweak;
use qmluic::qmldoc::UiDocument;
use qmluic::qtname::FileNameRules;
use qmluic::typemap::{ModuleData, ModuleId, TypeMap};
use qmluic::uigen::{self, BuildContext, DynamicBindingHandling, XmlWriter};
use std::io::Read;

fn main() {
    let mut source = String::new();
    std::io::stdin().read_to_string(&mut source).unwrap();
    let doc = UiDocument::parse(source, "Mode", None);
    if doc.has_syntax_error() {
        println!("SYNTAX-ERROR");
        return;
    }
    let mut classes: Vec<metatype::Class> = Vec::new();
    for p in ["qt5core_metatypes.json", "qt5gui_metatypes.json", "qt5widgets_metatypes.json"] {
        let data = std::fs::read_to_string(format!("/repo/contrib/metatypes/{p}")).unwrap();
        classes.extend(metatype::extract_classes_from_str(&data).unwrap());
    }
    metatype_tweak::apply_all(&mut classes);
    let mut type_map = TypeMap::with_primitive_types();
    let mut module_data = ModuleData::with_builtins();
    module_data.extend(classes);
    type_map.insert_module(ModuleId::Named("qmluic.QtWidgets"), module_data);
    for (name, mode) in [
        ("omit", DynamicBindingHandling::Omit),
        ("generate", DynamicBindingHandling::Generate),
        ("reject", DynamicBindingHandling::Reject),
    ] {
        let ctx = BuildContext::prepare(&type_map, FileNameRules::default(), mode).unwrap();
        let mut diagnostics = Diagnostics::new();
        let out = uigen::build(&ctx, &doc, &mut diagnostics);
        let mut msgs: Vec<String> = diagnostics
            .iter()
            .map(|d| format!("{:?}:{}", d.kind(), d.message()))
            .collect();
        msgs.sort();
        match out {
            None => println!("MODE {name} form=none support=no errors={} diagnostics={:?}", diagnostics.has_error(), msgs),
            Some((form, support)) => {
                let mut buf = Vec::new();
                form.serialize_to_xml(&mut XmlWriter::new_with_indent(&mut buf, b' ', 1)).unwrap();
                let ui = String::from_utf8(buf).unwrap();
                let mut h = 0xcbf29ce484222325u64;
                for b in ui.bytes() {
                    h = (h ^ b as u64).wrapping_mul(0x100000001b3);
                }
                let (has_support, members) = match support {
                    None => ("no", 0),
                    Some(s) => {
                        let mut hb = Vec::new();
                        s.write_header(&mut hb).unwrap();
                        let text = String::from_utf8(hb).unwrap();
                        ("yes", text.matches("void update").count() + text.matches("void on").count())
                    }
                };
                println!("MODE {name} form={h:016x} support={has_support} members={members} errors={} diagnostics={:?}", diagnostics.has_error(), msgs);
            }
        }
    }
}
