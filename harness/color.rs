
// ---------------------------------------------------------------------------------------------
// /verif harness fragment (appended to a scratch copy of lib/src/color.rs; cfg(kani) only)
// ---------------------------------------------------------------------------------------------
#[cfg(kani)]
mod verif_kani {
    use super::*;

    fn hexval(b: u8) -> Option<u8> {
        match b {
            b'0'..=b'9' => Some(b - b'0'),
            b'a'..=b'f' => Some(b - b'a' + 10),
            b'A'..=b'F' => Some(b - b'A' + 10),
            _ => None,
        }
    }

    /// Qt's QColor::setNamedColor rule for the hex forms the statement lists, written independently:
    /// #rgb / #argb: every digit doubled (x*17); #rrggbb / #aarrggbb: bytes; alpha first.
    fn qt_hex(d: &[u8]) -> Option<(u8, u8, u8, Option<u8>)> {
        let mut v = [0u8; 9];
        let mut i = 0;
        while i < d.len() {
            match hexval(d[i]) {
                Some(x) => v[i] = x,
                None => return None,
            }
            i += 1;
        }
        match d.len() {
            3 => Some((v[0] * 17, v[1] * 17, v[2] * 17, None)),
            4 => Some((v[1] * 17, v[2] * 17, v[3] * 17, Some(v[0] * 17))),
            6 => Some((v[0] * 16 + v[1], v[2] * 16 + v[3], v[4] * 16 + v[5], None)),
            8 => Some((v[2] * 16 + v[3], v[4] * 16 + v[5], v[6] * 16 + v[7], Some(v[0] * 16 + v[1]))),
            _ => None,
        }
    }

    fn check_hex(bytes: &[u8]) {
        // ASCII only here; non-ASCII is a separate harness
        let s = core::str::from_utf8(bytes).unwrap();
        let got = parse_hex_color(s);
        match qt_hex(bytes) {
            None => assert!(got.is_none()),
            Some((r, g, b, None)) => assert!(got == Some(Color::Rgb8(ColorRgb8 { red: r, green: g, blue: b }))),
            Some((r, g, b, Some(a))) => {
                assert!(got == Some(Color::Rgba8(ColorRgba8 { red: r, green: g, blue: b, alpha: a })))
            }
        }
    }

    /// every ASCII string of 0..=9 bytes after '#'
    #[kani::proof]
    #[kani::unwind(11)]
    fn c19_parse_hex_color_ascii() {
        let buf: [u8; 9] = kani::any();
        let len: usize = kani::any();
        kani::assume(len <= 9);
        let mut i = 0;
        while i < 9 {
            kani::assume(buf[i] < 0x80);
            i += 1;
        }
        check_hex(&buf[..len]);
        kani::cover!(len == 3 && qt_hex(&buf[..3]).is_some(), "#rgb accepted");
        kani::cover!(len == 4 && qt_hex(&buf[..4]).is_some(), "#argb accepted");
        kani::cover!(len == 6 && qt_hex(&buf[..6]).is_some(), "#rrggbb accepted");
        kani::cover!(len == 8 && qt_hex(&buf[..8]).is_some(), "#aarrggbb accepted");
        kani::cover!(len == 5, "length 5 rejected");
        kani::cover!(len == 9, "length 9 rejected");
        kani::cover!(len == 0, "empty rejected");
    }

    /// cheaper instance for the quick tier: lengths 0..=4 (all #rgb / #argb exhaustively)
    #[kani::proof]
    #[kani::unwind(6)]
    fn c19_parse_hex_color_short() {
        let buf: [u8; 4] = kani::any();
        let len: usize = kani::any();
        kani::assume(len <= 4);
        let mut i = 0;
        while i < 4 {
            kani::assume(buf[i] < 0x80);
            i += 1;
        }
        check_hex(&buf[..len]);
        kani::cover!(len == 3 && qt_hex(&buf[..3]).is_some(), "#rgb accepted");
        kani::cover!(len == 4 && qt_hex(&buf[..4]).is_some(), "#argb accepted");
        kani::cover!(len == 4 && buf[0] == b'+', "sign rejected");
    }

    /// any UTF-8 string of <= 4 bytes containing a non-ASCII character is rejected without panic
    #[kani::proof]
    #[kani::unwind(6)]
    fn c19_parse_hex_color_non_ascii() {
        let buf: [u8; 4] = kani::any();
        let len: usize = kani::any();
        kani::assume(len >= 1 && len <= 4);
        if let Ok(s) = core::str::from_utf8(&buf[..len]) {
            let mut non_ascii = false;
            let mut i = 0;
            while i < len {
                non_ascii |= buf[i] >= 0x80;
                i += 1;
            }
            if non_ascii {
                assert!(parse_hex_color(s).is_none());
            }
            kani::cover!(non_ascii && len == 3, "3-byte string with non-ASCII");
        }
    }

    // NOTE: Color::from_str itself cannot be compiled by Kani 0.68: any harness from which
    // HashMap::get is reachable hits an internal compiler error (kani-compiler/src/intrinsics.rs:243,
    // hashbrown's simd_bitmask).  Its '#'-dispatch and the 'transparent' arm are decided on the MIR of
    // from_str by engine C instead (vlib/props/c19.py).

    /// vacuity witness
    #[kani::proof]
    #[kani::unwind(6)]
    fn c19_witness_reachable() {
        let buf: [u8; 3] = kani::any();
        kani::assume(buf[0] < 0x80 && buf[1] < 0x80 && buf[2] < 0x80);
        let s = core::str::from_utf8(&buf).unwrap();
        if parse_hex_color(s).is_some() {
            assert!(false, "reachability witness");
        }
    }
}
